#!/bin/sh
# tools/run_all.sh [seed] [tier]: every registered check once; prints one line per check
SEED=${1:-1}; TIER=${2:-quick}
cd "$(dirname "$0")/.."
for id in C01 C02 C03 C04 C05 C06 C07 C08 C09 C10 C11 C12 C13 C14 C15 C16 C17 C18 C19 C20; do
  S=$(date +%s)
  OUT=$(VERIF_SEED=$SEED ./check $id --tier $TIER 2>&1); RC=$?
  E=$(date +%s)
  echo "rc=$RC $((E-S))s $(echo "$OUT" | grep -v conda | grep -E "^C[0-9]+ " | tail -1)"
  [ $RC -ne 0 ] && echo "$OUT" | grep -v conda | grep -E "signature|VIOLATION|Error" | head -5
done
