#!/usr/bin/env python3
"""Writes /verif/MANIFEST.json from the table below (single source of truth) and validates it."""
import json
import os
import sys

VERIF = os.path.dirname(os.path.dirname(os.path.abspath(__file__)))

BASELINE = ("cd /repo && /venv/bin/python -m pytest -ra -q -p no:cacheprovider --timeout=900 "
            "--continue-on-collection-errors")

# id -> (category, design_ref, technique, level text, level note)
CHECKS = {}


def add(pid, cat, ref, technique, text, note):
    CHECKS[pid] = (cat, ref, technique, text, note)


add("C12", "fault_enumeration", "DESIGN.md §2 C12",
    "Hypothesis-generated fault injection (fault kind x position x pairs x protocol x handler) with a "
    "metamorphic oracle: listing(with faults) = listing(without) + at most the faulty entries",
    "Every fault kind named in the statement (dangling/looping link, FIFO, socket, entry vanished after "
    "enumeration, stat failing ENOENT/EACCES, names the selector filter rejects) is injected at generated "
    "positions, singly and in pairs, through nine protocol forms and both directory handlers; the whole "
    "server runs in-process from the request line to the response bytes. Sampled, not exhaustive, over "
    "names and directory contents.",
    "stat/enumeration faults are injected by wrapping os.stat/os.listdir in the harness process; the "
    "client-side parsers of clients.py are trusted; the socket is replaced by an in-memory file")

add("C02", "exploration", "DESIGN.md §2 C02",
    "Hypothesis near-miss request-line grammar x TLS x header blocks x protocol orders, decided against an "
    "independent reference classifier of the documented request shapes (first match, TLS-strict)",
    "20k (quick) / 400k (thorough) generated first lines around every protocol's shape boundary are classified by "
    "the real ProtocolMultiplexer and by a from-scratch model; winner, TLS strictness, determinism and totality "
    "of the shipped list are asserted. Sampled exploration of an infinite input space, dense near the boundaries.",
    "TLS-ness is simulated the way the repository's tests do (request object is an ssl.SSLSocket instance); "
    "shape questions the documents leave open are accepted either way")

add("C03", "exploration", "DESIGN.md §2 C03",
    "Hypothesis-generated sites x malformed/mutated requests in all protocol syntaxes, decided by client-side "
    "response grammars + no-internal-error oracle; read-only request histories compared with solo replies "
    "(history independence)",
    "Generated sites contain every content kind of the quantifier; requests are structured mutations plus raw "
    "bytes; each reply must parse under an independent per-protocol grammar, no exception other than the "
    "not-found signal may be logged or escape, and every step of a 2-10 request history (cache on, module "
    "state kept) must equal the solo reply. Sampled exploration; bounded time is a 60 s watchdog only.",
    "pristine state for the solo reply is emulated by deleting cache files and resetting the server's lazy "
    "module tables; plain-Gopher replies have no status line, so only emptiness and menu syntax are judged")

add("C01", "exploration", "DESIGN.md §2 C01",
    "Hypothesis traversal grammar (token x position x encoding layers x suffix x protocol x handler list x cwd) with "
    "three oracles: two-world non-interference, audit-event monitor, not-found for climbing selectors",
    "Every request is served twice in one sandbox whose contents outside the root are swapped in between; replies and "
    "handler traces must be identical, no audited open/listdir/exec may resolve outside the root, and selectors that "
    "contain a climbing token after the protocol's single decoding must be refused. 16k (quick) / 300k (thorough) "
    "structured cases per run plus raw byte lines; absence of an escape is not proved.",
    "CPython audit events stand for OS opens (no C extension opens files here); stat-only probes are covered by the "
    "two-world comparison and, for paths outside the sandbox directory, by a third run in which os.stat / os.lstat say that "
    "what the server asked about and did not find exists; trees contain no symlink leaving the root")

add("C04", "exploration", "DESIGN.md §2 C04",
    "Hypothesis-generated files (content kind x block-boundary sizes x hostile names x extensions, real directory and "
    "ZIP member, both handler lists) fetched through 12 protocol forms; round-trip oracle body == file bytes, "
    "Gopher+ length, HEAD == GET headers, reference MIME model, WAP text inverse transform",
    "5k (quick) / 100k (thorough) files, each through every document form incl. TLS variants; sizes sit on both sides "
    "of every multiple of the 4096-byte copy block up to 5 blocks (1 MiB in thorough). Sampled exploration.",
    "stdlib mimetypes.MimeTypes (private instance) is the trusted reading of the configured tables; decompressor "
    "binaries zcat/bzcat are trusted; TLS is simulated in-process (no record layer)")

add("C05", "exploration", "DESIGN.md §2 C05",
    "Hypothesis-generated sites crawled breadth-first through each protocol's own syntax by independent clients; "
    "oracle: every rendered local link is served with the advertised kind, reached set == described set",
    "2.5k (quick) / 60k (thorough) sites with hostile names, each crawled through 3-6 protocol forms (~55k requests "
    "per quick run): links are followed exactly as rendered (percent-encoding, WAP prefix, virtual selectors, ZIP "
    "members). Sampled exploration of trees of depth <= 3.",
    "client-side parsers are trusted; the reserved namespaces listed in the evidence assumptions are not generated; "
    "one recorded finding (virtual separators in mailbox paths) is excluded by signature and reported as KNOWN-FINDING")

add("C06", "exploration", "DESIGN.md §2 C06",
    "Differential testing across protocols: Hypothesis-generated decorated directories, sites and search strings; "
    "oracle = pairwise equality of normalised entries / resolved kind+type / handler-side search string (spy)",
    "3k (quick) / 80k (thorough) cases in three modes: listings through 10 protocol forms compared entry by entry "
    "(incl. abstract settings and trailing slash), objects resolved through 6 forms with and without slash, search "
    "strings through 9 forms observed at the handler multiplexer and in a script's environment. Sampled.",
    "client-side parsers trusted; Gopher view is the reference for listings; remote links carry explicit host and port")

add("C07", "exploration", "DESIGN.md §2 C07",
    "Hypothesis-generated directories around every alternative of the ignore pattern x generated permutations of the OS "
    "enumeration order (os.listdir wrapper) x both directory handlers; oracles: visible-set model in both directions, "
    "metamorphic equality across permutations, documented order key, retrievability of everything kept out",
    "4k (quick) / 60k (thorough) directories; each listed under three enumeration orders and a second protocol, every "
    "kept-out entry fetched by exact selector. Permutations are sampled (2 per directory), not enumerated.",
    "enumeration order is imposed by wrapping os.listdir inside the harness process; the ignore pattern is read from "
    "the working tree's conf/pygopherd.conf")

add("C08", "exploration", "DESIGN.md §2 C08",
    "Model-based testing: Hypothesis-generated link files, .cap files, sidecars and extension-stripping modes; oracle = "
    "reference reading of the same files written from the manual (entry multiset + documented order)",
    "6k (quick) / 100k (thorough) decorated directories; every field of every listed entry and every abstract line "
    "is compared with the reference model, and the positive/unnumbered/negative order is checked pairwise. "
    "Agreement with a model written by the same reader of the manual; sampled.",
    "generator stays inside what the manual defines (see evidence assumptions); stdlib mimetypes tables trusted")

add("C09", "exploration", "DESIGN.md §2 C09",
    "Model-based testing: Hypothesis gophermap line grammar x depth x directory/file form x protocols; oracle = reference "
    "reading of the gophermap per the manual, plus equality of normalised entries across protocols",
    "8k (quick) / 150k (thorough) gophermaps of up to 15 lines; every line's type, description, selector, host and "
    "port defaults are compared with the model and a second protocol must show the same entries. Sampled.",
    "well-formed gophermaps only (type character and non-empty description on link lines)")

add("C10", "exploration", "DESIGN.md §2 C10",
    "Hypothesis RuleBasedStateMachine (mutate / age / list rules, shrunk step lists as replay files) against an explicit "
    "cache model; expected replies come from a reference server with caching off run on the tree as it was at "
    "snapshot time (differential cache-on vs cache-off)",
    "1.6k (quick) / 30k (thorough) machine runs of up to 25/50 steps over a four-directory site, seven protocol forms, "
    "lifetimes 1000 s and 0; every listing is compared with the model's expectation (hit: snapshot in the reader's "
    "protocol, age not refreshed; miss: current directory). Histories are sampled, not enumerated.",
    "clock movement is emulated by ageing cache files with os.utime; directory timestamps are masked")

add("C11", "fault_enumeration", "DESIGN.md §2 C11",
    "Crash-point enumeration over Hypothesis-drawn directories: every prefix length of every cache file (plus a zero-filled "
    "file) is injected, oracle = byte equality with the uncached reference listing; a write gate records the states a "
    "concurrent reader can observe and checks they are among the enumerated prefixes",
    "For each sampled directory (4 quick / 60 thorough; plain, .names, .cap, abstract, ZIP parent with its index files) "
    "the prefix lengths 0..size of each cache file are enumerated completely (~40k injected faults per quick run), each "
    "followed by a listing through one of four protocol forms.",
    "a crash/full disk/racing reader leaves a prefix of the writer's bytes (validated per directory by the write gate); "
    "directories are sampled, prefixes are exhaustive")

add("C20", "fault_enumeration", "DESIGN.md §2 C20",
    "Fault injection on the client file object: every write index of every response kind x protocol form x error class is "
    "enumerated (plus Hypothesis-drawn response sizes); oracles: containment, log record under the failure's own class "
    "with client address and protocol, no other exception class, file-descriptor census before == after",
    "10 response kinds x 9 protocol forms x 3 error classes, each with every write index 0..n of the fault-free run made "
    "the first failing call (~4k injected faults per quick run); 200 (quick) / 4000 (thorough) additional generated "
    "document sizes and menu lengths. The fixed-site enumeration is complete; sizes are sampled.",
    "a dead connection = a wfile whose k-th and later write() raise a fresh error instance; responses written by a child "
    "process directly to the socket are not covered; /proc/self/fd is the descriptor census")

add("C19", "fault_enumeration", "DESIGN.md §2 C19",
    "Complete enumeration of configurations x injected failing privileged call, driven through initialize() with recorded "
    "system calls; oracle = predicates over the ordered trace; plus a forked child performing the real chroot/setgid/setuid",
    "The domain (8 option combinations x each privileged call failing in turn, 38 cases, + 3 real-chroot children when "
    "running as root) is finite and enumerated completely on every run; bind and TLS key loading are real.",
    "os.chroot/chdir/setgroups/setregid/setreuid and pwd/grp lookups are replaced by recorders in the recorded cases; the "
    "real child needs euid 0 and is skipped (counted) otherwise")

add("C15", "exploration", "DESIGN.md §2 C15",
    "Hypothesis-generated items x sidecar subsets x multi-line printable content, requested with $, ! and +; oracle = "
    "block-structure model (+INFO == plain menu line, +ADMIN, +VIEWS type/size, one block per sidecar with exactly its "
    "lines, no unprefixed content line, exact length)",
    "4k (quick) / 80k (thorough) directories of 1-4 items (files, HTML, directories, mbox; real and inside a ZIP), each "
    "item's blocks parsed by an independent Gopher+ parser and compared with the sidecar files. Sampled.",
    "printable sidecar content without trailing blanks (quantifier); stdlib mimetypes trusted for the type")

add("C13", "exploration", "DESIGN.md §2 C13",
    "Metamorphic taint testing: Hypothesis payloads of markup / header / block-header fragments placed in 19 echo "
    "positions; oracle = token-skeleton equality with the same page built from an inert placeholder, HTTP header "
    "whitelist, Gopher+ block-header sequence",
    "10k (quick) / 200k (thorough) payload x position x protocol-form cases over HTTP, HTTPS, WAP (both detections) and "
    "Gopher+ ($, !); the payload must be found in the page (after un-escaping) for a case to count as non-trivial.",
    "lenient html.parser tokenisation stands for what a browser/WML client would parse; payload fragments are a "
    "fixed vocabulary combined by the generator")

add("C16", "exploration", "DESIGN.md §2 C16",
    "Differential testing: Hypothesis tree specs written both as a ZIP (member order, explicit/implicit directories, "
    "UTF-8/CP437 names, symlink members) and as the extracted tree; oracle = byte equality of replies modulo prefix and "
    "timestamps; second mode: real-file-only members must be served as own bytes under the audit monitor and two cwds",
    "1.6k (quick) / 30k (thorough) trees, every object, directory and a few missing selectors requested in both twins "
    "through 2-3 of 7 protocol forms (tens of thousands of request pairs per quick run). Sampled.",
    "timestamps are removed, the archive's own display name rewritten; CPython audit events stand for opens/execs")

add("C17", "exploration", "DESIGN.md §2 C17",
    "Model-based differential testing over a TAL/TALES/METAL template grammar: Hypothesis-generated template ASTs x "
    "contexts, simpleTAL's expansion vs an independent tree-walking reference interpreter (token-stream equality), plus a "
    "bracket/jump-target invariant on every compiled program",
    "6k (quick) / 150k (thorough) template x context pairs (nesting <= 4, every subset of the six TAL commands, nested "
    "repeats, local/global defines, alternation and all TALES prefixes, repeat variables, attrs, METAL macros with "
    "slots, template inclusion). Sampled; restricted to constructs with an unambiguous specification.",
    "the reference interpreter is written by the same reader of the specifications; html.parser tokenises both sides")

add("C18", "exploration", "DESIGN.md §2 C18",
    "Four Hypothesis-driven oracles on simpleTAL: metamorphic skeleton invariance (hostile vs inert context strings), "
    "python: side-effect canary under allowPythonPath on/off, round-trip + idempotence of TAL-free documents from an "
    "HTML grammar, and context-state restoration after expansion",
    "6k (quick) / 150k (thorough) cases over the four modes; the python canary is shown to fire when python paths are "
    "enabled, so an empty canary under the disabled setting is meaningful. Sampled.",
    "html.parser is the trusted tokenizer on both sides of the round-trip; document grammar limited to what it treats as markup")

add("C14", "exploration", "DESIGN.md §2 C14",
    "Stress with barrier-released bursts against live threading/forking server subprocesses (real sockets, real TLS) "
    "with a differential oracle (concurrent reply == solo reply on a pristine twin), liveness / reaping census, plus a "
    "harness-owned schedule point (reader placed inside the cache writer's window) and a seam-fidelity mode "
    "(in-process reply == live reply)",
    "96 (quick) / 2000 (thorough) cases: bursts of 2-32 mixed-protocol requests concentrated on few directories, the "
    "gated writer/reader schedule, and live-vs-in-process comparisons. Interleavings are sampled, not enumerated; the "
    "measured number of overlapping same-directory pairs is reported in the evidence.",
    "only the cache writer's window is a controlled schedule point; other races may need interleavings the stress does "
    "not produce; timing-sensitive oracles (reaping, thread exit) allow 5 s")

NOT_APPLICABLE = []


def main():
    props = [json.loads(l) for l in open(os.path.join(VERIF, "properties.jsonl"))]
    ids = [p["id"] for p in props]
    checks = []
    for pid in ids:
        if pid not in CHECKS:
            continue
        cat, ref, tech, text, note = CHECKS[pid]
        checks.append({
            "property_id": pid,
            "quick_cmd": "./check %s --tier quick" % pid,
            "thorough_cmd": "./check %s --tier thorough" % pid,
            "evidence_file": "evidence/%s.json" % pid,
            "replay_cmd_template": "./check %s --replay {path}" % pid,
            "engine": "pgv",
            "level_claimed": {"category": cat, "text": text, "design_ref": ref},
            "level_note": note,
            "technique": tech,
        })
    na = list(NOT_APPLICABLE)
    claimed = set(CHECKS) | {n["property_id"] for n in na}
    for pid in ids:
        if pid not in claimed:
            na.append({"property_id": pid,
                       "reason": "check not built yet in this session (planned: property-based check per DESIGN.md §2); "
                                 "not claimed until its check is registered"})
    man = {
        "version": 1,
        "setup_cmd": "./setup.sh",
        "hooks": {
            "guard": "PYGOPHERD_VERIF",
            "enable": "none needed: all instrumentation is harness-side monkey-patching inside the checking "
                      "process (audit hook, os.stat/os.listdir wrappers, wfile proxy); no hook code in /repo",
            "baseline_off_cmd": BASELINE,
            "source_commits": [],
            "add_only": True,
        },
        "engines": [{
            "name": "pgv",
            "path": "pgv/",
            "serves_properties": sorted(CHECKS),
            "kind_free_text": "Hypothesis 6.168 generators (+ finite enumerations, stateful machines) driving the "
                              "whole server in-process through GopherRequestHandler.handle(); independent protocol "
                              "clients/parsers and reference models as oracles; 16 forked shards; JSON replay files",
        }],
        "checks": checks,
        "notes": "Exit 0 = held (KNOWN-FINDING lines possible), 1 = VIOLATION property=<id> replay=<path>, "
                 "2 = harness error. Seeds: VERIF_SEED (default 1). Genuine defects repaired by 'fix:' commits in /repo "
                 "are listed as 'fixed' in known_findings.json.",
        "not_applicable": na,
    }
    out = os.path.join(VERIF, "MANIFEST.json")
    with open(out, "w") as f:
        json.dump(man, f, indent=1)
        f.write("\n")
    try:
        import jsonschema
        schema = json.load(open("/root/.vp/MANIFEST.schema.json"))
        jsonschema.validate(man, schema)
        print("MANIFEST.json valid:", len(checks), "checks,", len(na), "not_applicable")
    except ImportError:
        print("MANIFEST.json written (jsonschema not importable here; run with python3-vt to validate)")


if __name__ == "__main__":
    main()
