#!/bin/sh
# tools/mut.sh <patch.diff> <ID> [extra check args]: apply a patch to /repo, run the quick check, undo the patch.
# Prints KILLED (check exit 1), SURVIVED (exit 0) or ERROR (exit 2).
P="$(realpath "$1")"; ID="$2"; shift 2
if ! git -C /repo diff --quiet; then echo "refusing: /repo has uncommitted changes"; exit 3; fi
git -C /repo apply "$P" || { echo "patch does not apply: $P"; exit 3; }
OUT=$(timeout 900 /verif/check "$ID" "$@" 2>&1); RC=$?
git -C /repo checkout -- . 
case $RC in 0) R=SURVIVED;; 1) R=KILLED;; *) R=ERROR;; esac
echo "$R $ID $(basename $P): $(echo "$OUT" | grep -v conda | grep -v KNOWN-FINDING | grep -E 'signature|HARNESS|Error' | head -3 | tr '\n' ' ' | cut -c1-300)"
[ "$R" = ERROR ] && echo "$OUT" | tail -15
exit 0
