#!/usr/bin/env python3
import json,glob,sys,os
pid, pat = sys.argv[1], sys.argv[2]
fs = sorted(glob.glob('/verif/replays/%s/%s*' % (pid, pat)), key=os.path.getmtime)
d = json.load(open(fs[-1]))
print(fs[-1]); print("MSG:", d['message'])
print("CASE:", json.dumps(d['case'])[:int(sys.argv[3]) if len(sys.argv)>3 else 1500])
det = d.get('detail') or {}
for k,v in det.items(): print("---",k); print(v if isinstance(v,str) else json.dumps(v)[:1500])
