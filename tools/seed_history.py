#!/usr/bin/env python3
"""tools/seed_history.py <ID> <name> <text>: re-runs the quick check against seeded/<ID>-<name> in a scratch worktree and
records the result + the history text (what was strengthened) in its meta.json."""
import json, os, subprocess, sys
V = os.path.dirname(os.path.dirname(os.path.abspath(__file__)))
pid, name, text = sys.argv[1], sys.argv[2], sys.argv[3]
W = "/tmp/seedrerun-%s" % pid
d = os.path.join(V, "seeded", "%s-%s" % (pid, name))
subprocess.run("git -C /repo worktree remove --force %s" % W, shell=True, capture_output=True)
subprocess.run("git -C /repo worktree add -q --detach %s HEAD" % W, shell=True, check=True)
try:
    subprocess.run("git -C %s apply %s/patch.diff" % (W, d), shell=True, check=True)
    # SEED_CHECK=<ID>: the change is caught by another property's check (recorded as "caught_by"; sensitivity.sh honours it)
    chk = os.environ.get("SEED_CHECK") or json.load(open(os.path.join(d, "meta.json"))).get("caught_by") or pid
    p = subprocess.run("./check %s --no-shrink" % chk, shell=True, cwd=V, env=dict(os.environ, PGV_REPO=W),
                       capture_output=True, text=True)
finally:
    subprocess.run("git -C /repo worktree remove --force %s" % W, shell=True, capture_output=True)
res = {0: "SURVIVED", 1: "KILLED"}.get(p.returncode, "ERROR(%d)" % p.returncode)
sigs = [l.strip()[:200] for l in p.stdout.splitlines() if l.startswith("  signature")]
m = json.load(open(os.path.join(d, "meta.json")))
first = m.get("first_result") or m["check_result"]
m["first_result"] = first
m["check_result"] = res
if chk != pid:
    m["caught_by"] = chk
m["check_signatures"] = sigs[:4]
m["history"] = "first run: %s. %s Now: %s." % (first, text, res)
json.dump(m, open(os.path.join(d, "meta.json"), "w"), indent=1)
print(pid, name, res, sigs[:2])
