#!/bin/sh
# tools/refresh_patches.sh: after a repair in /repo, re-express every mutant / seeded patch that no longer applies cleanly
# (fuzz 3) against HEAD in a scratch worktree; reports the ones that need a manual rebase.
V=/tmp/patchrefresh
cd "$(dirname "$0")/.."
git -C /repo worktree remove --force $V 2>/dev/null
git -C /repo worktree add -q --detach $V HEAD
for P in mutants/*/*.diff seeded/*/patch.diff; do
  git -C $V checkout -q -- . ; git -C $V clean -fdq
  if git -C $V apply --check "$PWD/$P" 2>/dev/null; then continue; fi
  if (cd $V && patch -p1 -F3 -s --no-backup-if-mismatch < "$OLDPWD/$P" >/dev/null 2>&1); then
    case "$P" in seeded/*) [ -f "$(dirname $P)/patch.orig.diff" ] || cp "$P" "$(dirname $P)/patch.orig.diff";; esac
    git -C $V diff > "$P"; echo "refreshed $P"
  else
    echo "NEEDS MANUAL REBASE: $P"
  fi
done
git -C /repo worktree remove --force $V
