#!/usr/bin/env python3
"""tools/mk_seed_prompts.py <round-tag> : writes /tmp/<round-tag>_prompt_CNN.txt for every property and creates scratch
worktrees /tmp/<round-tag>-CNN of /repo (HEAD, detached).  The prompt holds ONLY the property's text, a summary of the
ideas earlier rounds used (to be avoided) and the deliverable format - nothing from /verif's machinery."""
import json, os, subprocess, sys
V = os.path.dirname(os.path.dirname(os.path.abspath(__file__)))
tag = sys.argv[1]
only = sys.argv[2:]  # optional list of ids
for l in open(os.path.join(V, "properties.jsonl")):
    p = json.loads(l)
    pid = p["id"]
    if only and pid not in only:
        continue
    wt = "/tmp/%s-%s" % (tag, pid)
    subprocess.run("git -C /repo worktree remove --force %s" % wt, shell=True, capture_output=True)
    subprocess.run("git -C /repo worktree add -q --detach %s HEAD" % wt, shell=True, check=True)
    ideas = []
    for n in "abcdefghijklmnopqrstuvwxyz":
        f = os.path.join(V, "seeded", "%s-%s" % (pid, n), "NOTES.md")
        if os.path.exists(f):
            t = " ".join(open(f).read().split())
            ideas.append("- " + t[:420])
    text = """You are working in a scratch git worktree of the open-source project pygopherd (a multi-protocol Gopher/Gopher+/HTTP/WAP/Gemini/Spartan
file server in Python with a bundled simpleTAL template library): %(wt)s .  Work ONLY inside that directory.  Do not read
or touch /repo or /verif.  There is no network.

A semantic property of this code base:

  %(id)s - %(title)s
  Statement: %(statement)s
  Quantified over: %(q)s

YOUR TASK: make one small, realistic change to the SOURCE (pygopherd/ or simpletal/ or conf/; never tests/) that BREAKS this
property for some inputs / configurations / histories / schedules, while
  * the package still imports and the existing test suite gives exactly the baseline result:
        cd %(wt)s && /venv/bin/python -m pytest -q -p no:cacheprovider --timeout=900
    baseline = 119 passed, 2 skipped, 1 failed (tests/handlers/test_zip.py::TestVFSZip::test_save_cache fails on the
    unchanged code too).  The suite binds port 64777; if another process runs it at the same moment a test may error with
    "address in use" - simply re-run.  The suite leaves an untracked file testdata/\\256.txt behind; ignore it.
  * the change looks like something a maintainer could plausibly commit (a refactor, an optimisation, a "clean-up", a
    robustness tweak) - not sabotage, no dead code, no special-casing of magic values.
Prefer a change that needs something SPECIFIC to manifest (a particular shape of input, option, sequence of requests,
timing, file-system state): the subtler the better, as long as you can demonstrate it.

Earlier rounds already used the following ideas for this property - do NOT reuse these mechanisms or close variants; find a
different place in the code and a different trigger:
%(ideas)s

DELIVERABLES, all in %(wt)s :
  1. SEED_PATCH.diff  - `git diff` of your source change only (no tests, no demo).  Leave the change applied.
  2. demo.py          - self-contained demonstration: run as  cd %(wt)s && PYTHONPATH=%(wt)s /venv/bin/python demo.py
                        exits 0 on the ORIGINAL code and non-zero (printing what went wrong) WITH your change.  It builds its
                        own temporary content tree, binds no fixed port (in-process use of the classes, or port 0), needs no
                        network, and cleans up.  Check both directions yourself with `git apply -R SEED_PATCH.diff` and
                        `git apply SEED_PATCH.diff` (do NOT use git stash: the stash is shared between worktrees).
  3. NOTES.md         - a few lines: what you changed, which clause of the property it breaks, and exactly what is needed for
                        the violation to show (and what does NOT show it).
Finish with a 3-5 line summary of the change.
""" % {"wt": wt, "id": pid, "title": p["title"], "statement": p["statement"], "q": p["quantifier"]["text"],
       "ideas": "\n".join(ideas) or "- (none yet)"}
    open("/tmp/%s_prompt_%s.txt" % (tag, pid), "w").write(text)
    print(pid, wt)
