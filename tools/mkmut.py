#!/usr/bin/env python3
"""tools/mkmut.py <ID> <name> <file relative to /repo> <<< 'OLD\n====\nNEW'  -> mutants/<ID>/<name>.diff"""
import subprocess, sys
pid, name, path = sys.argv[1:4]
old, new = sys.stdin.read().split("\n====\n")
new = new.rstrip("\n") if not new.endswith("\n\n") else new
old = old
p = "/repo/" + path
s = open(p).read()
if old.rstrip("\n") not in s:
    sys.exit("OLD text not found in %s" % path)
open(p, "w").write(s.replace(old.rstrip("\n"), new.rstrip("\n"), 1))
d = subprocess.run(["git", "-C", "/repo", "diff"], capture_output=True, text=True).stdout
import os
os.makedirs("/verif/mutants/%s" % pid, exist_ok=True)
open("/verif/mutants/%s/%s.diff" % (pid, name), "w").write(d)
subprocess.run(["git", "-C", "/repo", "checkout", "--", "."])
print("wrote mutants/%s/%s.diff (%d lines)" % (pid, name, d.count("\n")))
