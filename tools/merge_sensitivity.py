#!/usr/bin/env python3
"""tools/merge_sensitivity.py <part.md>: rows of an incremental pass (SENS_ONLY) replace / extend the rows of SENSITIVITY.md."""
import re, sys, functools, builtins
open = functools.partial(builtins.open, encoding="utf-8", errors="surrogateescape")  # (signatures are cut at a byte count)
main, part = "SENSITIVITY.md", sys.argv[1]
def rows(path):
    out = {}
    for l in open(path):
        m = re.match(r"^\| (C\d+) \| ([^|]+?) \| ([A-Z()0-9-]+) \|", l)
        if m:
            out[(m.group(1), m.group(2))] = l
    return out
lines = open(main).read().splitlines(keepends=True)
new = rows(part)
seen = set()
body = []
for l in lines:
    m = re.match(r"^\| (C\d+) \| ([^|]+?) \| ([A-Z()0-9-]+) \|", l)
    if m and (m.group(1), m.group(2)) in new:
        body.append(new[(m.group(1), m.group(2))]); seen.add((m.group(1), m.group(2)))
    elif l.startswith("Totals:") or l.startswith("Rows merged"):
        continue
    else:
        body.append(l)
while body and body[-1].strip() == "":
    body.pop()
for k, l in new.items():
    if k not in seen:
        body.append(l)
text = "".join(body)
k = text.count("| KILLED |"); s = text.count("| SURVIVED |"); e = len(re.findall(r"\| (ERROR\(\d+\)|DOES-NOT-APPLY) \|", text))
text += "\nTotals: %d killed, %d survived, %d errors.\n" % (k, s, e)
text += "Rows merged from an incremental pass (%d rows, %s).\n" % (len(new), open(part).read().split("repository commit ")[1].split(".")[0] if "repository commit " in open(part).read() else "?")
builtins.open(main, "w", encoding="utf-8", errors="surrogateescape").write(text)
print("merged", len(new), "rows; totals", k, s, e)
