#!/usr/bin/env python3
"""tools/ingest_seed.py <ID> <agent-worktree> [name]

Confirms an independently authored change (SEED_PATCH.diff + demo.py + NOTES.md in the agent's worktree) in a FRESH scratch
worktree of /repo: the patch applies, the repository's suite still passes as at baseline, demo.py exits 0 without the patch
and non-zero with it.  Then runs the property's quick check against the patched worktree (PGV_REPO) and stores everything
under /verif/seeded/<ID>-<name>/ (patch.diff, demo.py, NOTES.md, meta.json).  Nothing is ever applied to /repo.
"""
import json
import os
import shutil
import subprocess
import sys

VERIF = os.path.dirname(os.path.dirname(os.path.abspath(__file__)))
pid, src = sys.argv[1], sys.argv[2].rstrip("/")
name = sys.argv[3] if len(sys.argv) > 3 else "a"
V = "/tmp/seedverify-%s" % pid


def sh(cmd, cwd=None, env=None, timeout=1200):
    e = dict(os.environ)
    e.update(env or {})
    p = subprocess.run(cmd, shell=True, cwd=cwd, env=e, capture_output=True, text=True, timeout=timeout)
    return p.returncode, (p.stdout + p.stderr)


patch = os.path.join(src, "SEED_PATCH.diff")
demo = os.path.join(src, "demo.py")
for f in (patch, demo):
    if not os.path.exists(f):
        sys.exit("missing %s" % f)
# the patch must only touch source files
touched = [l[6:] for l in open(patch) if l.startswith("+++ b/")]
bad = [t for t in touched if t.startswith("tests/") or t.strip() in ("demo.py", "NOTES.md", "SEED_PATCH.diff")]
if bad:
    sys.exit("patch touches %r" % bad)

sh("git -C /repo worktree remove --force %s" % V)
rc, out = sh("git -C /repo worktree add -q --detach %s HEAD" % V)
if rc:
    sys.exit("cannot create worktree: " + out)
meta = {"property": pid, "touched": [t.strip() for t in touched], "ran": []}
try:
    shutil.copy(demo, os.path.join(V, "demo.py"))
    env = {"PYTHONPATH": V, "PYTHONDONTWRITEBYTECODE": "1"}
    rc0, out0 = sh("/venv/bin/python demo.py", cwd=V, env=env, timeout=600)
    meta["ran"].append("demo.py on the original code: exit %d" % rc0)
    rc, out = sh("git apply %s" % patch, cwd=V)
    if rc:
        sys.exit("patch does not apply to HEAD: " + out)
    rc1, out1 = sh("/venv/bin/python demo.py", cwd=V, env=env, timeout=600)
    meta["ran"].append("demo.py with the change: exit %d" % rc1)
    rct, outt = sh("/venv/bin/python -m pytest -q -p no:cacheprovider --timeout=900 2>&1 | tail -3", cwd=V, env=env)
    summary = [l for l in outt.splitlines() if "passed" in l or "failed" in l]
    meta["ran"].append("repository suite with the change: %s" % (summary[-1].strip() if summary else outt[-200:]))
    suite_ok = bool(summary) and "119 passed" in summary[-1] and "1 failed" in summary[-1]
    sh("rm -f testdata/$(printf '\\256').txt", cwd=V)
    rcc, outc = sh("./check %s --no-shrink" % pid, cwd=VERIF, env={"PGV_REPO": V}, timeout=1500)
    res = {0: "SURVIVED", 1: "KILLED"}.get(rcc, "ERROR(%d)" % rcc)
    sigs = [l.strip()[:200] for l in outc.splitlines() if l.startswith("  signature")]
    meta["ran"].append("./check %s (quick, PGV_REPO=scratch worktree with the change): %s" % (pid, res))
    meta["check_result"] = res
    meta["check_signatures"] = sigs[:4]
    meta["confirmed"] = bool(rc0 == 0 and rc1 != 0 and suite_ok)
    notes = os.path.join(src, "NOTES.md")
    meta["needs_to_manifest"] = open(notes).read()[:1500] if os.path.exists(notes) else ""
    print("seed %s: demo orig=%d changed=%d suite_ok=%s -> confirmed=%s ; check: %s %s" % (
        pid, rc0, rc1, suite_ok, meta["confirmed"], res, sigs[:1]))
    if rc1 != 0:
        print("   demo output with change:", out1.strip().splitlines()[-1:] if out1.strip() else "")
    if not meta["confirmed"]:
        print("   NOT KEPT (orig demo out: %s)" % out0[-300:])
    else:
        d = os.path.join(VERIF, "seeded", "%s-%s" % (pid, name))
        os.makedirs(d, exist_ok=True)
        shutil.copy(patch, os.path.join(d, "patch.diff"))
        shutil.copy(demo, os.path.join(d, "demo.py"))
        if os.path.exists(notes):
            shutil.copy(notes, os.path.join(d, "NOTES.md"))
        with open(os.path.join(d, "meta.json"), "w") as f:
            json.dump(meta, f, indent=1)
finally:
    sh("git -C /repo worktree remove --force %s" % V)
