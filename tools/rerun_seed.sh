#!/bin/sh
# rerun quick check of property $1 against seeded/$1-$2 in a scratch worktree
ID=$1; N=$2; V=/tmp/seedrerun-$ID
git -C /repo worktree remove --force $V 2>/dev/null
git -C /repo worktree add -q --detach $V HEAD
git -C $V apply /verif/seeded/$ID-$N/patch.diff || { echo "patch no longer applies"; }
cd /verif && PGV_REPO=$V ./check $ID --no-shrink 2>&1 | grep -v conda | grep -E "^  signature|quick seed" | head -3 | cut -c1-250
git -C /repo worktree remove --force $V
