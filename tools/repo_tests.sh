#!/bin/sh
# Runs the repository's own suite (the BASELINE command) and cleans what it leaves in testdata/.
cd /repo && /venv/bin/python -m pytest -ra -q -p no:cacheprovider --timeout=900 --continue-on-collection-errors "$@" 2>&1 | tail -8
rm -f /repo/testdata/$(printf '\256').txt
git -C /repo status --short | head
