"""Generated sites: tree specs mixing every content kind the properties quantify over, plus a
description of the addressable objects (selector, kind, bytes) derived from the spec alone."""
from __future__ import annotations

import gzip

from hypothesis import strategies as st

from pgv import gen

FROM_LINE = "From alice@example.com Sat Jan  3 01:05:34 1996\n"


def mbox_text(subjects):
    out = ""
    for i, s in enumerate(subjects):
        out += FROM_LINE + "From: alice@example.com\nSubject: %s\n\nbody of message %d\n\n" % (s, i + 1)
    return out


def maildir_spec(path, subjects):
    spec = [[path + "/cur", "d", None], [path + "/new", "d", None], [path + "/tmp", "d", None]]
    for i, s in enumerate(subjects):
        spec.append([path + "/new/%d.msg" % (i + 1), "f",
                     "From: bob@example.com\nSubject: %s\n\nmaildir body %d\n" % (s, i + 1)])
    return spec


subject_st = st.one_of(
    st.text("abcdefgh XYZ0123", min_size=1, max_size=12).map(str.strip).filter(bool),
    st.text("abcdefgh XYZ0123", min_size=1, max_size=12).map(str.strip).filter(bool),
    # RFC 2047 encoded words as mail programs write them - well-formed, with a charset Python has no codec for, cut off
    st.sampled_from(["=?utf-8?q?caf=C3=A9?=", "=?iso-8859-1?b?Y2Fm6Q==?=", "=?iso-8859-8-i?q?abc?=", "=?x-mac-roman?q?r=8Esum=8E?=",
                     "=?utf-8?b?QUJDR?=", "=?utf-8?q?broken", "Re: =?windows-874?b?4Liq?= tail", "=?utf-8?x?y?=", "=??q?x?=",
                     # encoded words that stand for control characters (TAB, CR LF + a forged menu line): whoever decodes
                     # them for display has to clean the result, not the encoded form
                     "=?utf-8?q?tab=09inside?=", "=?utf-8?b?dHdvDQoxbGluZXMJLwlnb3BoZXIuZXhhbXBsZS5vcmcJNzA=?=", "=?iso-8859-1?q?a=0D=0Ab?=", "=?utf-8?q?nul=00byte?="]),
)

SCRIPT = "#!/bin/sh\necho \"script output search=[$SEARCHREQUEST] selector=[$SELECTOR]\"\n"


def gz_text(content):
    return gzip.compress(content.encode("latin-1"), mtime=0).decode("latin-1")


@st.composite
def dir_items(draw, depth, full, gopher_ok, toplevel, max_items=5, kinds=None, longnames=False, encnames=True):
    """Returns list of (name, item) with item = dict(kind=..., ...)"""
    kinds = kinds or ["txt", "txt", "html", "bin", "dir", "dir", "map", "mbox", "maildir", "mapfile"] + (
        ["zip", "gz", "exec"] if full else [])
    if depth <= 0:
        kinds = [k for k in kinds if k not in ("dir", "map")] or ["txt"]
    n = draw(st.integers(1, max_items))
    items = []
    used = set()
    for _ in range(n):
        kind = draw(st.sampled_from(kinds))
        name = draw(gen.names(gopher_ok=gopher_ok, toplevel=toplevel, full=full, long_ratio=1 if longnames else 0))
        if kind == "txt":
            name = name if "." in name else name + draw(st.sampled_from(["", ".txt"]))
            item = {"kind": "txt", "content": draw(gen.text_content)}
        elif kind == "html":
            name = name.split(".")[0] + ".html"
            title = draw(st.text("abc XYZ019", min_size=1, max_size=10).map(str.strip).filter(bool))
            shape = draw(st.sampled_from(["plain", "plain", "script-on-title-line", "style-on-title-line", "title-over-lines",
                                          "comment-before", "upper"]))
            content = {
                "plain": "<html><head><title>%s</title></head><body>x</body></html>\n",
                # ordinary pages: a script / style element opened on the line of </title> and closed later
                "script-on-title-line": "<html><head><title>%s</title><script type=\"text/javascript\">\nvar a = '<b>' + 1;\n</script>\n</head><body>x</body></html>\n",
                "style-on-title-line": "<html><head>\n<title>%s</title><style>\nb { color: red }\n</style></head><body>x</body></html>\n",
                "title-over-lines": "<html>\n<head>\n<title>%s\n</title>\n</head><body>x</body></html>\n",
                "comment-before": "<!-- <title>not this</title> -->\n<html><head><title>%s</title></head><body>x</body></html>\n",
                "upper": "<HTML><HEAD><TITLE>%s</TITLE></HEAD><BODY>x</BODY></HTML>\n",
            }[shape] % title
            item = {"kind": "html", "title": title, "content": content}
        elif kind == "bin":
            # (with the shipped handler list also names whose last extension is an ENCODING of a typed file)
            name = name.split(".")[0] + draw(st.sampled_from([".gif", ".dat", ".jpg"] + ([] if full or not encnames else [".txt.gz", ".svgz", ".tgz", ".txt.Z", ".html.gz"])))
            item = {"kind": "bin", "content": draw(gen.binary_content)}
        elif kind == "dir":
            # (one directory in six is empty: an explicit member with nothing below it when it lives in an archive)
            item = {"kind": "dir", "items": [] if draw(st.integers(0, 5)) == 0 else
                    draw(dir_items(depth - 1, full, gopher_ok, False, 3, kinds, longnames, encnames))}
        elif kind == "map":
            # (names listed in a gophermap cannot contain TAB/CR/LF whatever the protocol: TAB separates its fields)
            item = {"kind": "map", "items": draw(dir_items(depth - 1, full, True, False, 3,
                                                           [k for k in kinds if k in ("txt", "html", "bin", "dir")])),
                    "info": draw(st.lists(gen.text_line.map(str.strip), max_size=2)),
                    "remote": draw(st.lists(st.sampled_from(["3Sorry, this has moved\t\terror.host\t1", "2Phone book\t\tcso.example.org\t105",
                                                              "8Library catalogue\tguest\ttelnet.example.org\t23",
                                                              "TMainframe\t\ttn.example.org\t23", "7Search the other site\t/v2/vs\tgopher.example.org\t70",
                                                              "3Error with a selector\t/gone\tother.example.org\t70",
                                                              # search items of this server whose selectors travel escaped in a URL
                                                              "7Find it here\t/cgi bin/find it.sh", "7Recherche\t/caf\xe9 q.sh",
                                                              # links to URLs (doc/standards/url.txt: items of THIS server that a Gopher client
                                                              # asks for and gets a redirect page), in schemes of all kinds
                                                              "hThe web site\tURL:http://www.example.org/", "hChat with us\tURL:irc://irc.example.org/gopher",
                                                              "hShell account\tURL:ssh://shell.example.org/", "hSources\tURL:git://git.example.org/p.git"]),
                                        max_size=2, unique=True))}
        elif kind == "mapfile":
            # a menu that is a file: '<name>.gophermap' (info lines and a link back to the root)
            name = name.split(".")[0] + ".gophermap"
            item = {"kind": "mapfile", "content": "".join(l + "\n" for l in draw(st.lists(gen.text_line.map(str.strip).filter(bool), max_size=2))) +
                    "1Back to the root\t/\n"}
        elif kind == "mbox":
            name = name.split(".")[0] + draw(st.sampled_from([".mbox", ""]))
            item = {"kind": "mbox", "subjects": draw(st.lists(subject_st, min_size=1, max_size=3))}
        elif kind == "maildir":
            item = {"kind": "maildir", "subjects": draw(st.lists(subject_st, min_size=1, max_size=1))}
        elif kind == "zip":
            name = name.split(".")[0] + ".zip"
            # (archives exist with the full handler list only, where a '.gz' member goes through the decompressor)
            item = {"kind": "zip", "items": draw(dir_items(1, False, gopher_ok, False, 3, ["txt", "bin", "dir", "html"], encnames=False))}
        elif kind == "gz":
            name = name.split(".")[0] + ".txt.gz"
            item = {"kind": "gz", "content": draw(gen.text_content)}
        elif kind == "exec":
            name = name.split(".")[0] + draw(st.sampled_from([".sh", ""]))
            item = {"kind": "exec"}
        if name in used or not gen.servable_name(name, toplevel, full):
            continue
        used.add(name)
        items.append([name, item])
        if kind == "mbox" and draw(st.integers(0, 3)) == 0 and name + ".lock" not in used:
            # what a delivery agent that crashed leaves next to a mailbox: a stale dot-lock file (an ordinary document)
            used.add(name + ".lock")
            items.append([name + ".lock", {"kind": "txt", "content": draw(st.sampled_from(["", "4711\n"]))}])
    if not items:
        items.append(["readme.txt", {"kind": "txt", "content": "hello\n"}])
    return items


_VIRTUAL_KINDS = ("mbox", "maildir", "exec")


def reserve_virtual_separators(items):
    """'?' and '|' separate a real selector from virtual arguments (handlers/virtual.py); a mailbox or
    script whose own path contains one cannot be addressed.  Replace them in the names of virtual-capable
    objects and of their ancestor directories.  Returns True if the subtree holds such an object."""
    has = False
    seen = {n for n, _ in items}
    for ent in items:
        name, it = ent
        sub = False
        if it["kind"] in _VIRTUAL_KINDS:
            sub = True
        elif it["kind"] in ("dir", "map", "zip"):
            sub = reserve_virtual_separators(it["items"])
        if sub and ("?" in name or "|" in name):
            new = name.replace("?", "_").replace("|", "_")
            while new in seen:
                new = "v" + new
            seen.add(new)
            ent[0] = new
        has = has or sub
    return has


def site(full=False, gopher_ok=True, depth=2, max_items=5, virtual_seps=False, longnames=False):
    s = dir_items(depth, full, gopher_ok, True, max_items, None, longnames)
    if virtual_seps:
        return s
    def fix(items):
        reserve_virtual_separators(items)
        return items
    return s.map(fix)


def _zip_members(items, prefix=""):
    mem = []
    for name, it in items:
        if it["kind"] == "dir":
            mem.append([prefix + name, "d", None, {}])
            mem += _zip_members(it["items"], prefix + name + "/")
        else:
            mem.append([prefix + name, "f", it.get("content", ""), {}])
    return mem


def to_spec(items, prefix=""):
    """items -> flat tree spec (world.materialise)"""
    spec = []
    for name, it in items:
        p = prefix + name
        k = it["kind"]
        if k in ("txt", "html", "bin", "mapfile"):
            spec.append([p, "f", it["content"]])
        elif k == "dir":
            spec.append([p, "d", None])
            spec += to_spec(it["items"], p + "/")
        elif k == "map":
            spec.append([p, "d", None])
            spec += to_spec(it["items"], p + "/")
            lines = [l for l in it["info"]]
            for cname, cit in it["items"]:
                t = "1" if cit["kind"] in ("dir", "map") else ("h" if cit["kind"] == "html" else ("9" if cit["kind"] == "bin" else "0"))
                lines.append("%s%s\t%s" % (t, "Link to " + cname.replace("\t", " "), cname))
            # lines for other hosts, of the item types that have no document or menu behind them (error, CSO, telnet, tn3270)
            lines += list(it.get("remote", []))
            spec.append([p + "/gophermap", "f", "".join(l + "\n" for l in lines)])
        elif k == "mbox":
            spec.append([p, "f", mbox_text(it["subjects"])])
        elif k == "maildir":
            spec += maildir_spec(p, it["subjects"])
        elif k == "zip":
            spec.append([p, "zip", {"members": _zip_members(it["items"])}])
        elif k == "gz":
            spec.append([p, "f", gz_text(it["content"])])
        elif k == "exec":
            spec.append([p, "f", SCRIPT, 0o755])
        elif k == "links":
            spec.append([p, "f", it["text"]])
        elif k == "spec":
            # extra file-system furniture that is not an addressable object of the site (e.g. things under '.cap')
            for rel, kind, payload in it["entries"]:
                spec.append([prefix + rel, kind, payload])
    return spec


def objects(items, base=""):
    """Addressable objects: list of dicts {sel, kind: menu|doc, what, content (latin-1 str or None)}.
    base = selector of the containing directory ('' for the root)."""
    out = []
    for name, it in items:
        sel = base + "/" + name
        k = it["kind"]
        if k in ("txt", "html", "bin"):
            out.append({"sel": sel, "kind": "doc", "what": k, "content": it["content"]})
        elif k == "mapfile":
            # a file called '<name>.gophermap': served as the menu its lines describe
            out.append({"sel": sel, "kind": "menu", "what": "mapfile", "content": None})
        elif k in ("dir", "map"):
            out.append({"sel": sel, "kind": "menu", "what": k, "content": None})
            out += objects(it["items"], sel)
        elif k == "mbox":
            out.append({"sel": sel, "kind": "menu", "what": "mbox", "content": None})
            for i in range(len(it["subjects"])):
                out.append({"sel": "%s|/MBOX-MESSAGE/%d" % (sel, i + 1), "kind": "doc", "what": "mboxmsg", "content": None})
        elif k == "maildir":
            out.append({"sel": sel, "kind": "menu", "what": "maildir", "content": None})
            for i in range(len(it["subjects"])):
                out.append({"sel": "%s|/MAILDIR-MESSAGE/%d" % (sel, i + 1), "kind": "doc", "what": "maildirmsg", "content": None})
        elif k == "zip":
            out.append({"sel": sel, "kind": "menu", "what": "zip", "content": None})
            out += [dict(o, what="zip:" + o["what"]) for o in objects(it["items"], sel)]
        elif k == "gz":
            out.append({"sel": sel, "kind": "doc", "what": "gz", "content": it["content"]})
        elif k == "exec":
            out.append({"sel": sel, "kind": "doc", "what": "exec", "content": None})
    return out
