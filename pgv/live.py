"""Live driver: a real pygopherd server (initialization.initialize + serve_forever) in a subprocess, real sockets,
real TLS (testdata/demo.crt).  Also plain client helpers."""
from __future__ import annotations

import configparser
import os
import socket
import ssl
import subprocess
import sys
import threading
import time

from pgv import drive

SERVER_CODE = r"""
import sys, os, warnings
warnings.filterwarnings("ignore")
sys.path.insert(0, sys.argv[2])
sys.setswitchinterval(1e-5)
from pygopherd import initialization, logger
server = initialization.initialize(sys.argv[1])
sys.stdout.write("PORT %d %d\n" % (server.socket.getsockname()[1], os.getpid()))
sys.stdout.flush()
try:
    server.serve_forever()
except KeyboardInterrupt:
    pass
"""


def write_conf(path, root, kind="full", servertype="ThreadingTCPServer", cachetime=180, timeout=None):
    cp = configparser.ConfigParser()
    cp.read_string(drive._read_conf("local.conf" if kind == "full" else "pygopherd.conf"))
    cp.set("pygopherd", "root", root)
    cp.set("pygopherd", "port", "0")
    cp.set("pygopherd", "interface", "127.0.0.1")
    cp.set("pygopherd", "servername", drive.SERVER_NAME)
    cp.set("pygopherd", "advertisedport", str(drive.SERVER_PORT))
    cp.set("pygopherd", "detach", "no")
    cp.set("pygopherd", "usechroot", "no")
    cp.set("pygopherd", "servertype", servertype)
    cp.set("pygopherd", "tracebacks", "no")
    cp.set("pygopherd", "mimetypes", os.path.join(drive.REPO, "conf", "mime.types"))
    cp.set("pygopherd", "enable_tls", "yes")
    cp.set("pygopherd", "tls_certfile", os.path.join(drive.REPO, "testdata", "demo.crt"))
    cp.set("pygopherd", "tls_keyfile", os.path.join(drive.REPO, "testdata", "demo.key"))
    cp.set("logger", "logmethod", "none")
    cp.set("handlers.dir.DirHandler", "cachetime", str(cachetime))
    for o in ("pidfile", "setuid", "setgid"):
        if cp.has_option("pygopherd", o):
            cp.remove_option("pygopherd", o)
    if timeout is not None:
        cp.set("pygopherd", "timeout", str(timeout))
    elif cp.has_option("pygopherd", "timeout"):
        cp.set("pygopherd", "timeout", "20")
    with open(path, "w") as f:
        cp.write(f)
    return path


class Server:
    def __init__(self, conf, cwd="/", capture_log=False, env=None, capture_err=False):
        errdir = os.environ.get("PGV_LIVE_STDERR")
        self.errfile = open(os.path.join(errdir, "server-%d-%d.err" % (os.getpid(), id(self))), "wb") if errdir else None
        self.errlines = []
        self.proc = subprocess.Popen([sys.executable, "-W", "ignore", "-c", SERVER_CODE, conf, drive.REPO],
                                     stdout=subprocess.PIPE,
                                     stderr=subprocess.PIPE if capture_err else (self.errfile or subprocess.DEVNULL), cwd=cwd,
                                     env=dict(os.environ, PYTHONDONTWRITEBYTECODE="1", **(env or {})))
        if capture_err:
            def pump_err():
                try:
                    for raw in self.proc.stderr:
                        self.errlines.append(raw.decode("latin-1").rstrip("\n"))
                except (OSError, ValueError):
                    pass
            threading.Thread(target=pump_err, daemon=True).start()
        # (with logmethod = file the server's log goes to the same stream; start-up records precede the PORT line)
        self.logs = []
        line = ""
        for _ in range(200):
            line = self.proc.stdout.readline().decode("latin-1")
            if not line or line.startswith("PORT "):
                break
            self.logs.append(line.rstrip("\n"))
        if not line.startswith("PORT "):
            self.stop()
            raise RuntimeError("live server did not start: %r %r" % (line, self.logs[-3:]))
        if capture_log:
            def pump():
                try:
                    for raw in self.proc.stdout:
                        self.logs.append(raw.decode("latin-1").rstrip("\n"))
                except (OSError, ValueError):
                    pass
            threading.Thread(target=pump, daemon=True).start()
        self.port = int(line.split()[1])
        self.pid = int(line.split()[2])  # differs from proc.pid when the server detached (the launched process has exited)

    def stop(self):
        try:
            pid = getattr(self, "pid", self.proc.pid)
            if pid != self.proc.pid:
                import signal
                for sig in (signal.SIGTERM, signal.SIGKILL):
                    try:
                        os.kill(pid, sig)
                    except OSError:
                        break
                    for _ in range(30):
                        if not os.path.exists("/proc/%d" % pid):
                            break
                        time.sleep(0.1)
            self.proc.terminate()
            try:
                self.proc.wait(timeout=3)
            except subprocess.TimeoutExpired:
                self.proc.kill()
                self.proc.wait(timeout=3)
        finally:
            if self.proc.stdout:
                self.proc.stdout.close()

    def sockets(self):
        """number of socket descriptors the server process holds (None if unknown)"""
        try:
            n = 0
            for fd in os.listdir("/proc/%d/fd" % self.pid):
                try:
                    if os.readlink("/proc/%d/fd/%s" % (self.pid, fd)).startswith("socket:"):
                        n += 1
                except OSError:
                    pass
            return n
        except OSError:
            return None

    def alive(self):
        if self.pid != self.proc.pid:
            return os.path.exists("/proc/%d" % self.pid)
        return self.proc.poll() is None

    def threads(self):
        try:
            with open("/proc/%d/status" % self.pid) as f:
                for l in f:
                    if l.startswith("Threads:"):
                        return int(l.split()[1])
        except OSError:
            return None

    def children(self):
        """(live children, zombie children) of the server process"""
        live, zombies = 0, 0
        for d in os.listdir("/proc"):
            if not d.isdigit():
                continue
            try:
                with open("/proc/%s/stat" % d) as f:
                    st = f.read()
                rp = st.rfind(")")
                fields = st[rp + 2:].split()
                if int(fields[1]) == self.pid:
                    if fields[0] == "Z":
                        zombies += 1
                    else:
                        live += 1
            except (OSError, ValueError, IndexError):
                pass
        return live, zombies


_client_ctx = None


def client_ctx():
    global _client_ctx
    if _client_ctx is None:
        c = ssl.SSLContext(ssl.PROTOCOL_TLS_CLIENT)
        c.check_hostname = False
        c.verify_mode = ssl.CERT_NONE
        _client_ctx = c
    return _client_ctx


def connect(port, timeout=20):
    s = socket.create_connection(("127.0.0.1", port), timeout=timeout)
    return s


def exchange(sock, request, tls=False, timeout=20):
    """send the request (after a TLS handshake if tls), read until EOF; returns bytes or raises"""
    sock.settimeout(timeout)
    if tls:
        sock = client_ctx().wrap_socket(sock, server_hostname="gopher.example")
    try:
        sock.sendall(request)
        chunks = []
        while True:
            try:
                b = sock.recv(65536)
            except ssl.SSLError:
                break
            if not b:
                break
            chunks.append(b)
        return b"".join(chunks)
    finally:
        try:
            sock.close()
        except OSError:
            pass


def request(port, req, tls=False, timeout=20):
    return exchange(connect(port, timeout), req, tls, timeout)


def burst(port, reqs, timeout=30):
    """reqs: list of (request bytes, tls).  All sockets are connected first, then released together by a barrier.
    Returns (replies, intervals) with intervals = (t_start, t_end) per request."""
    n = len(reqs)
    socks = []
    for _ in range(n):
        # a server that stops accepting (listen queue full for 10 s on loopback) is a finding, not a harness error
        try:
            socks.append(connect(port, 10) if not (socks and isinstance(socks[-1], Exception)) else socks[-1])
        except OSError as e:
            socks.append(e)
    barrier = threading.Barrier(n)
    replies = [None] * n
    times = [None] * n

    def run(i):
        try:
            barrier.wait(timeout=timeout)
            t0 = time.monotonic()
            if isinstance(socks[i], Exception):
                raise socks[i]
            replies[i] = exchange(socks[i], reqs[i][0], reqs[i][1], timeout)
            times[i] = (t0, time.monotonic())
        except Exception as e:  # connection-level failure is a finding (server stopped answering), not a harness error
            replies[i] = e
            times[i] = (time.monotonic(), time.monotonic())
    ths = [threading.Thread(target=run, args=(i,), daemon=True) for i in range(n)]
    for t in ths:
        t.start()
    for t in ths:
        t.join(timeout + 10)
    return replies, times
