"""C17 - simpleTAL executes templates according to TAL/TALES semantics (+ structural well-formedness of programs)."""
from __future__ import annotations

import io

from hypothesis import strategies as st

from pgv import drive, talgen  # noqa: F401  (drive puts the working tree first on sys.path)
from pgv.core import Fail
from pgv.model import tal as M

ID = "C17"
LEVEL = "exploration"
RULE = ("Template ASTs from a TAL grammar (elements incl. void and tal:-namespace elements, every subset of define / "
        "condition / repeat / content|replace (text, structure) / attributes / omit-tag, nesting <= 4, nested repeats, "
        "local and global defines; TALES paths with | alternation, exists: not: nocall: string: ($var, ${path}, $$), "
        "nothing, default, repeat variables, attrs) x contexts (strings with metacharacters, ints, None, empty / "
        "non-empty lists, dicts, zero-argument callables); a METAL mode with a library macro, define-slot and "
        "use-macro / fill-slot. Each AST is serialised to HTML for simpleTAL and interpreted directly by the reference "
        "tree-walking evaluator; the outputs are compared as token streams. The same compiled template (and library) is "
        "expanded a second time with a fresh copy of the context (the output must not change) and a third time with "
        "other data (optional item keys gone, the two lists swapped), again judged against the evaluator: an expansion "
        "leaves nothing behind in the compiled program. On every compiled program: scopes nest "
        "like brackets and every end-tag symbol of a CONDITION / REPEAT / CONTENT / USE_MACRO / DEFINE_SLOT command "
        "is the ENDTAG_ENDSCOPE closing the scope opened for that element. Non-trivial: an element with >= 2 TAL "
        "commands, a repeat over >= 2 items, or a macro with a filled slot; distinct by case hash.")
ASSUMPTIONS = [
    "only constructs on which TAL 1.4 / TALES / METAL and simpleTAL's notes agree are generated (no content+replace on "
    "one element, no content on void elements, no python:, sequences below 26 items, repeat over lists / callables "
    "returning lists / None / missing / default only, $var in string: terminated by a blank or the end)",
    "new attributes may be emitted in any order (attributes are compared as a map)",
    "the reference interpreter was written by the same reader of the specification (common-mode risk)",
]


@st.composite
def _case(draw):
    mode = draw(st.sampled_from(["tal", "tal", "tal", "tal", "metal"]))
    ctx = draw(talgen.context(hostile=True))
    if mode == "tal":
        return {"mode": "tal", "template": draw(talgen.template(draw(st.integers(1, 3)))), "ctx": ctx}
    lib, main = draw(talgen.metal_pair())
    return {"mode": "metal", "lib": lib, "template": main, "ctx": ctx}


def strategy(tier):
    return _case()


def examples(tier):
    return 6000 if tier == "quick" else 150000


def real_value(v):
    if isinstance(v, dict):
        if set(v) == {"__call__"}:
            inner = real_value(v["__call__"])
            return lambda: inner
        return {k: real_value(x) for k, x in v.items()}
    if isinstance(v, list):
        return [real_value(x) for x in v]
    return v


def make_context(ctx, allow_python=0):
    from simpletal import simpleTALES
    c = simpleTALES.Context(allowPythonPath=allow_python)
    for k, v in ctx.items():
        c.addGlobal(k, real_value(v))
    return c


def program_problems(template):
    """structural invariant on a compiled program"""
    from simpletal import simpleTAL
    cmds, start, end, symbols = template.getProgram()
    probs = []
    stack = []
    closes = {}
    for i, (op, args) in enumerate(cmds):
        if op == simpleTAL.TAL_START_SCOPE:
            stack.append(i)
        elif op == simpleTAL.TAL_ENDTAG_ENDSCOPE:
            if not stack:
                probs.append("ENDTAG_ENDSCOPE at %d closes nothing" % i)
                continue
            closes[stack.pop()] = i
    if stack:
        probs.append("%d scopes never closed" % len(stack))
    # every command with an end symbol must point at the end of the scope opened just before it
    open_stack = []
    for i, (op, args) in enumerate(cmds):
        if op == simpleTAL.TAL_START_SCOPE:
            open_stack.append(i)
        elif op == simpleTAL.TAL_ENDTAG_ENDSCOPE:
            if open_stack:
                open_stack.pop()
        sym = None
        if op == simpleTAL.TAL_CONDITION:
            sym = args[1]
        elif op == simpleTAL.TAL_REPEAT:
            sym = args[2]
        elif op == simpleTAL.TAL_CONTENT:
            sym = args[3]
        elif op == simpleTAL.METAL_USE_MACRO:
            sym = args[2]
        elif op == simpleTAL.METAL_DEFINE_SLOT:
            sym = args[1]
        if sym is not None:
            if sym not in symbols:
                probs.append("command %d uses undefined symbol %r" % (i, sym))
            elif not open_stack:
                probs.append("command %d with a jump target lies outside any scope" % i)
            elif symbols[sym] != closes.get(open_stack[-1]):
                probs.append("command %d (opcode %d) jumps to %r, its element ends at %r" % (i, op, symbols[sym], closes.get(open_stack[-1])))
    return probs


def expand_real(case, allow_python=0):
    from simpletal import simpleTAL
    text = M.serialise(case["template"])
    tpl = simpleTAL.compileHTMLTemplate(text)
    ctx = make_context(case["ctx"], allow_python)
    probs = program_problems(tpl)
    if case["mode"] == "metal":
        libtext = M.serialise(case["lib"])
        lib = simpleTAL.compileHTMLTemplate(libtext)
        probs += program_problems(lib)
        ctx.addGlobal("lib", lib)
    out = io.StringIO()
    tpl.expand(ctx, out)
    # the same compiled template (and library) expanded once more with a fresh context: an expansion leaves nothing behind
    # in the compiled programs (what is compiled once is expanded for every request)
    ctx2 = make_context(case["ctx"], allow_python)
    if case["mode"] == "metal":
        ctx2.addGlobal("lib", lib)
    out2 = io.StringIO()
    tpl.expand(ctx2, out2)
    if out2.getvalue() != out.getvalue():
        probs = probs + ["second expansion of the same compiled template differs: %r vs %r" % (out2.getvalue()[:200], out.getvalue()[:200])]
    # ... and a third time with OTHER data (see variant_ctx): judged against the reference like the first
    ctx3 = make_context(variant_ctx(case["ctx"]), allow_python)
    if case["mode"] == "metal":
        ctx3.addGlobal("lib", lib)
    out3 = io.StringIO()
    tpl.expand(ctx3, out3)
    expand_real.third = out3.getvalue()
    return text, out.getvalue(), probs, ctx


def variant_ctx(ctx):
    """the same context with the optional item key gone (paths that found a value now fall through to their alternatives)
    and the two lists swapped"""
    import copy
    c = copy.deepcopy(ctx)
    for k in ("lst", "lst2"):
        for it in c.get(k, []):
            if isinstance(it, dict):
                it.pop("k_opt", None)
    if isinstance(c.get("lst"), list) and isinstance(c.get("lst2"), list):
        c["lst"], c["lst2"] = c["lst2"], c["lst"]
    return c


def expand_model(case):
    g = {k: M.realise(v) for k, v in case["ctx"].items()}
    if case["mode"] == "metal":
        macros = {}
        for n in case["lib"]:
            if n["t"] == "el" and n.get("metal", {}).get("define-macro"):
                macros[n["metal"]["define-macro"]] = {"__macro__": True, "node": n}
        g["lib"] = {"macros": macros, "__template__": True, "nodes": case["lib"]}
    return M.Expander(g).run(case["template"])


def _count(nodes):
    multi = rep = 0
    for n in nodes:
        if n["t"] == "el":
            if len(n.get("tal", {})) >= 2:
                multi += 1
            if "repeat" in n.get("tal", {}):
                rep += 1
            a, b_ = _count(n["kids"])
            multi += a
            rep += b_
    return multi, rep


def custom_run(tier, seed, shard, nshards, ctx, rec):
    """thorough tier only: a coverage-guided atheris (libFuzzer) campaign over template TEXT per shard, looking for a
    compiled program that violates the structural invariant (or a TAL-free document whose expansion is not idempotent).
    A saved crashing input becomes an ordinary case ({"mode": "text"}) and is re-judged by check_case."""
    import glob
    import os
    import subprocess
    import sys
    from pgv import world
    if tier != "thorough":
        return
    verif = os.path.dirname(os.path.dirname(os.path.dirname(os.path.abspath(__file__))))
    if not os.path.isdir(os.path.join(verif, ".deps", "atheris")):
        ctx.count("atheris_unavailable_shards")
        return
    work = world.fresh_dir("atheris")
    corpus = os.path.join(work, "corpus")
    out = os.path.join(work, "out")
    os.mkdir(corpus)
    os.mkdir(out)
    seeds = ['<div tal:repeat="x lst"><b tal:content="x">y</b><br tal:condition="a"></div>',
             '<p tal:define="global g s1; v s2" tal:attributes="title v" tal:omit-tag="">t</p>',
             '<div metal:use-macro="lib/macros/m"><i metal:fill-slot="s">f</i></div><b metal:define-macro="m"><u metal:define-slot="s">d</u></b>',
             '<!DOCTYPE html><script>a < b</script><img src=x><tal:block replace="structure s1"/>']
    for i, t in enumerate(seeds):
        with open(os.path.join(corpus, "s%d" % i), "w") as f:
            f.write(t)
    runs = 400000
    env = dict(os.environ, PYTHONPATH=verif + os.pathsep + os.path.join(verif, ".deps"))
    p = subprocess.run([sys.executable, "-W", "ignore", "-m", "pgv.fuzz.tal_target", "-runs=%d" % runs,
                        "-seed=%d" % (seed * 1000 + shard + 1), "-max_len=400", "-artifact_prefix=" + out + "/", corpus],
                       cwd=verif, env=env, stdout=subprocess.PIPE, stderr=subprocess.STDOUT, timeout=1500)
    ctx.count("atheris_campaigns")
    ctx.count("atheris_execs", runs)
    for cf in glob.glob(os.path.join(out, "crash-*")):
        with open(cf, "rb") as f:
            text = f.read().decode("utf-8", "replace")
        rec.run_case({"mode": "text", "text": text}, origin="atheris")


def check_case(case, ctx):
    import logging
    logging.disable(logging.CRITICAL)
    if case.get("mode") == "text":
        from pgv.fuzz import tal_target
        probs = tal_target.check_text(case["text"])
        if probs:
            return [Fail("fuzz:" + probs[0].split(":")[0], "template text %r: %s" % (case["text"][:200], probs[0]))]
        return []
    try:
        text, real, probs, _ = expand_real(case)
    except Exception as e:
        return [Fail("expand-raised:%s" % drive.exc_signature(e), "template %r raised %r" % (M.serialise(case["template"])[:300], e))]
    multi, rep = _count(case["template"])
    if multi or rep or case["mode"] == "metal":
        ctx.nontriv()
    ctx.label("mode:" + case["mode"], "multi-command-elements:%d" % min(multi, 3), "repeats:%d" % min(rep, 3))
    ctx.sample({"template": text[:600], "output": real[:300]}, cls=case["mode"] + str(min(multi, 1)))
    fails = []
    if probs:
        fails.append(Fail("second-expansion" if probs[0].startswith("second expansion") else "program-structure",
                          "compiled program of %r is not well-formed: %s" % (text[:200], probs[0])))
    want = talgen.model_tokens(expand_model(case))
    got = talgen.tokenise(real)
    if got != want:
        i = next((k for k, (a, b_) in enumerate(zip(got, want)) if a != b_), min(len(got), len(want)))
        fails.append(Fail("output-differs:" + _classify(case, got, want, i),
                          "template %r: token %d is %r, TAL semantics give %r" % (text[:400], i, got[i:i + 2], want[i:i + 2]),
                          {"template": text, "output": real[:800]}))
    elif not fails:
        vcase = dict(case, ctx=variant_ctx(case["ctx"]))
        want3 = talgen.model_tokens(expand_model(vcase))
        got3 = talgen.tokenise(expand_real.third)
        if got3 != want3:
            i = next((k for k, (a, b_) in enumerate(zip(got3, want3)) if a != b_), min(len(got3), len(want3)))
            fails.append(Fail("later-expansion-differs:" + _classify(case, got3, want3, i),
                              "template %r, compiled once and expanded a third time with other data: token %d is %r, TAL semantics give %r"
                              % (text[:400], i, got3[i:i + 2], want3[i:i + 2]), {"template": text, "output": expand_real.third[:800]}))
    return fails


def _classify(case, got, want, i):
    g = got[i] if i < len(got) else None
    w = want[i] if i < len(want) else None
    if g is None or w is None:
        return "length"
    if g[0] != w[0]:
        return "%s-vs-%s" % (g[0], w[0])
    if g[0] == "s":
        return "tag" if g[1] != w[1] else "attributes"
    if g[0] == "d":
        return "text"
    return g[0]
