"""C19 - Privileges are dropped completely and in the right order at start-up."""
from __future__ import annotations

import configparser
import json
import os

from pgv import drive, world
from pgv.core import Fail

ID = "C19"
LEVEL = "fault_enumeration"
EXHAUSTIVE = True
WORKERS = 4
RULE = ("All 8 combinations of usechroot / setuid / setgid, each without a fault and with every privileged call that the "
        "combination makes (pwd/grp lookup, chroot, chdir, setgroups, setregid, setreuid) failing in turn with "
        "PermissionError; start-up is driven through initialization.initialize() on a generated configuration file "
        "with os.chroot/chdir/setgroups/setregid/setreuid, pwd.getpwnam, grp.getgrnam replaced by recorders (socket "
        "bind and TLS key loading are real). Oracle: predicates over the recorded trace. When running as root a forked "
        "child additionally performs the REAL chroot/setgid/setuid sequence and reports its working directory, "
        "reachability of the real /etc/passwd through relative paths, and its ids; 'real unprivileged' children first become "
        "an ordinary user for real and must see init_security abort. Recorded cases run with the process believing it is "
        "uid 0 and uid 1000. The domain is finite and "
        "enumerated completely (exhaustive: true). Non-trivial: every case with >= 1 privilege option or a fault.")
ASSUMPTIONS = [
    "system calls are recorded, not performed, except in the real-chroot child (only when euid == 0 and chroot(2) is permitted)",
    "'the working directory moved inside the new root' is read as: a chdir to an absolute path is the next privileged "
    "step after chroot - unless the server was started from the root or from below it (then either is accepted)",
]

PRIV = ("chroot", "chdir", "setgroups", "setregid", "setreuid")
UID, GID = 65534, 65533


def enumerate_cases(tier, seed):
    for ch in (False, True):
        for su in (False, True):
            for sg in (False, True):
                calls = []
                if su:
                    calls.append("getpwnam")
                if sg:
                    calls.append("getgrnam")
                if ch:
                    calls += ["chroot", "chdir"]
                if su or sg:
                    calls.append("setgroups")
                if sg:
                    calls.append("setregid")
                if su:
                    calls.append("setreuid")
                # ids: what the process believes it runs as (0 = root; 1000 = an ordinary user holding the needed
                # capabilities, or - with a failing step - one who does not)
                for ids in (0, 1000):
                    yield {"chroot": ch, "setuid": su, "setgid": sg, "fail": None, "real": False, "ids": ids}
                    for c in calls:
                        yield {"chroot": ch, "setuid": su, "setgid": sg, "fail": c, "real": False, "ids": ids}
                # other ways for a step to fail than EPERM (a transient-looking EAGAIN that persists, EINVAL, ENOMEM)
                for c in calls:
                    if c in ("getpwnam", "getgrnam"):
                        continue
                    for en in ("EAGAIN", "EINVAL", "ENOMEM"):
                        yield {"chroot": ch, "setuid": su, "setgid": sg, "fail": c, "real": False, "ids": 0, "errno": en}
                # the configured account may be one whose numeric id is 0 ('root', 'toor', group 'wheel') or whose primary group
                # differs from its uid: the calls are made all the same, with the ids the look-ups returned
                if su or sg:
                    for uid, gid in ((0, 0), (0, GID), (UID, 0), (5, 60)):
                        yield {"chroot": ch, "setuid": su, "setgid": sg, "fail": None, "real": False, "ids": 0, "uid": uid, "gid": gid}
                        for c in calls:
                            if c in ("setgroups", "setregid", "setreuid"):
                                yield {"chroot": ch, "setuid": su, "setgid": sg, "fail": c, "real": False, "ids": 0, "uid": uid, "gid": gid}
                if ch:
                    # the directory the server is started from: the root itself, below it, and a sibling whose name extends
                    # the root's name ('<root>-private')
                    for cwd in ("root", "sub", "sibling"):
                        yield {"chroot": ch, "setuid": su, "setgid": sg, "fail": None, "real": False, "ids": 0, "cwd": cwd}
    # the configured interface is an address this host does not have (yet): whatever start-up makes of that, no privilege is
    # given up while the listening socket is unbound
    for ch, su, sg in ((True, True, True), (True, False, False), (False, True, True), (False, False, True)):
        yield {"chroot": ch, "setuid": su, "setgid": sg, "fail": None, "real": False, "ids": 0, "iface": "192.0.2.1"}
    # a fresh interpreter per start-up, with other string-hash seeds than this process runs under (the order in which a set or
    # a dict built from a set is walked differs from one server start to the next)
    for hs in (1, 2, 3, 5, 7, 11):
        for ch in (False, True):
            yield {"chroot": ch, "setuid": True, "setgid": True, "fail": None, "real": False, "ids": 0, "hashseed": hs}
    for hs in (1, 2, 3):
        yield {"chroot": True, "setuid": True, "setgid": True, "fail": "setregid", "real": False, "ids": 0, "hashseed": hs}
    for ch, su, sg in ((True, True, True), (True, False, False), (False, True, True)):
        yield {"chroot": ch, "setuid": su, "setgid": sg, "fail": None, "real": True}
    for ch, su, sg in ((True, True, True), (True, False, False), (False, True, True), (False, True, False), (False, False, True)):
        yield {"chroot": ch, "setuid": su, "setgid": sg, "fail": None, "real": True, "unpriv": True}
    for cwd in ("root", "sub", "sibling"):
        yield {"chroot": True, "setuid": True, "setgid": True, "fail": None, "real": True, "cwd": cwd}
        yield {"chroot": True, "setuid": False, "setgid": False, "fail": None, "real": True, "cwd": cwd}


def _write_conf(base, root, case):
    cp = configparser.ConfigParser()
    cp.read_string(drive._read_conf("local.conf"))
    cp.set("pygopherd", "root", root)
    cp.set("pygopherd", "port", "0")
    cp.set("pygopherd", "interface", case.get("iface", "127.0.0.1"))
    cp.set("pygopherd", "detach", "no")
    cp.set("pygopherd", "usechroot", "yes" if case["chroot"] else "no")
    cp.set("pygopherd", "mimetypes", os.path.join(drive.REPO, "conf", "mime.types"))
    cp.set("pygopherd", "enable_tls", "yes")
    cp.set("pygopherd", "tls_certfile", os.path.join(drive.REPO, "testdata", "demo.crt"))
    cp.set("pygopherd", "tls_keyfile", os.path.join(drive.REPO, "testdata", "demo.key"))
    cp.set("logger", "logmethod", "none")
    for o in ("pidfile", "setuid", "setgid"):
        if cp.has_option("pygopherd", o):
            cp.remove_option("pygopherd", o)
    if case["setuid"]:
        cp.set("pygopherd", "setuid", "nobody")
    if case["setgid"]:
        cp.set("pygopherd", "setgid", "nogroup")
    path = os.path.join(base, "pygopherd.conf")
    with open(path, "w") as f:
        cp.write(f)
    return path


class _Patches:
    def __init__(self, trace, fail, ids=0, errname="EPERM", uid=None, gid=None):
        self.trace = trace
        self.fail = fail
        self.ids = ids
        self.errname = errname
        self.uid = UID if uid is None else uid
        self.gid = GID if gid is None else gid
        self.saved = []

    def _set(self, obj, name, val):
        self.saved.append((obj, name, getattr(obj, name)))
        setattr(obj, name, val)

    def __enter__(self):
        import grp
        import pwd
        from pygopherd import initialization
        trace, fail = self.trace, self.fail

        def rec(name, ret=None):
            def f(*a):
                trace.append((name,) + tuple(a))
                if fail == name:
                    import errno as _errno
                    en = getattr(_errno, self.errname)
                    raise OSError(en, os.strerror(en) + " (injected)")  # (EPERM gives PermissionError)
                return ret
            return f
        for n in PRIV:
            self._set(os, n, rec(n))
        # every other way of changing ids is recorded too (never executed: the harness runs as root): calls that change all
        # three ids of a kind count as the switch itself, calls that change only the effective id are a finding
        r_uid, r_gid = rec("setreuid"), rec("setregid")
        self._set(os, "setuid", lambda u: r_uid(u, u))
        self._set(os, "setgid", lambda g: r_gid(g, g))
        self._set(os, "setresuid", lambda r, e, s_: r_uid(r, e) if r == e == s_ else rec("partial-id-change")("setresuid", r, e, s_))
        self._set(os, "setresgid", lambda r, e, s_: r_gid(r, e) if r == e == s_ else rec("partial-id-change")("setresgid", r, e, s_))
        self._set(os, "seteuid", lambda u: rec("partial-id-change")("seteuid", u))
        self._set(os, "setegid", lambda g: rec("partial-id-change")("setegid", g))
        for n in ("getuid", "geteuid", "getgid", "getegid"):
            self._set(os, n, (lambda v: (lambda: v))(self.ids))
        self._set(pwd, "getpwnam", rec("getpwnam", ("nobody", "x", self.uid, 7777, "", "/", "")))
        self._set(grp, "getgrnam", rec("getgrnam", ("nogroup", "x", self.gid, [])))
        # the configured account is a member of further groups (as after 'usermod -aG adm,mail nobody'): whatever the code
        # looks up about them, the process must end up without supplementary groups
        self._set(grp, "getgrall", lambda: [("adm", "x", 4, ["nobody"]), ("mail", "x", 8, ["someone", "nobody"]),
                                             ("nogroup", "x", self.gid, [])])
        self._set(os, "getgrouplist", lambda user, group: [group, 4, 8])
        self._set(os, "initgroups", rec("initgroups"))
        o_get_server = initialization.get_server
        servers = self.servers = []
        import ssl as _ssl
        o_load = _ssl.SSLContext.load_cert_chain

        def load_cert_chain(ctx_, *a, **kw):
            # wherever the code loads the key from (start-up, or lazily on the first TLS connection): this is the moment
            r = o_load(ctx_, *a, **kw)
            trace.append(("tls-load", True))
            return r
        self._set(_ssl.SSLContext, "load_cert_chain", load_cert_chain)

        def get_server(config, context=None):
            s = o_get_server(config, context=context)
            servers.append(s)
            trace.append(("bind", s.socket.getsockname()[1] != 0, context is not None))
            return s

        self._set(initialization, "get_server", get_server)
        self._set(initialization, "init_signal_handlers", lambda: trace.append(("signals",)))
        self._set(initialization, "init_process_group", lambda config: trace.append(("setpgrp",)))
        o_init_config = initialization.init_config

        class RecConfig(configparser.ConfigParser):
            def set(self, section, option, value=None):
                trace.append(("config.set", section, option, value))
                return super().set(section, option, value)

        def init_config(filename):
            c = RecConfig()
            c.read(filename)
            return c
        self._set(initialization, "init_config", init_config)
        return self

    def __exit__(self, *a):
        for obj, name, val in reversed(self.saved):
            setattr(obj, name, val)
        for s in self.servers:
            try:
                s.server_close()
            except Exception:
                pass


def _predicates(case, trace, raised, server, root):
    wuid = UID if case.get("uid") is None else case["uid"]
    wgid = GID if case.get("gid") is None else case["gid"]
    fails = []
    names = [t[0] for t in trace]
    priv_idx = [i for i, n in enumerate(names) if n in PRIV]
    fail = case["fail"]

    def F(sig, msg):
        fails.append(Fail(sig, msg + "  trace=%r" % ([t for t in trace if t[0] != "config.set"],)))
    # bind + TLS before any privilege is given up
    if priv_idx:
        first = priv_idx[0]
        if not [t for t in trace[:first] if t[0] == "bind" and t[1]]:
            F("order:bind-after-drop", "the listening socket is not bound before the first privileged call")
        if "tls-load" not in names[:first]:
            F("order:tls-after-drop", "TLS keys are not loaded before the first privileged call")
    elif fail is None and (case["chroot"] or case["setuid"] or case["setgid"]) and not (raised and case.get("iface")):
        F("no-privileged-calls", "privilege options are configured but no privileged call was made")
    # injected failure aborts start-up
    if fail is not None:
        if fail in names:
            if not raised:
                F("failure-swallowed:" + fail, "%s failed but start-up went on and returned a server" % fail)
            after = [n for n in names[names.index(fail) + 1:] if n in PRIV]
            if after:
                F("continues-after-failure:" + fail, "%s failed, yet %r was still called" % (fail, after))
        elif fail == "chdir" and case["chroot"]:
            pass  # reported below as missing chdir
        elif not raised:
            F("call-missing:" + fail, "expected call %s never happened" % fail)
        return fails
    if raised and case.get("iface"):
        # an interface address the host does not have: start-up may give up - before anything else was done (the order of bind
        # and privilege drop was checked above)
        return fails
    if raised:
        F("startup-failed", "fault-free start-up raised %r" % (raised,))
        return fails
    privs = [t for t in trace if t[0] in PRIV]
    pn = [t[0] for t in privs]
    if case["chroot"]:
        if not pn or pn[0] != "chroot":
            F("chroot-not-first", "chroot is not the first privileged call: %r" % pn)
        else:
            if privs[0][1] != root:
                F("chroot-wrong-dir", "chroot(%r), configured root is %r" % (privs[0][1], root))
            if len(pn) < 2 or pn[1] != "chdir":
                # started from the root itself or from below it, the working directory is inside the new root anyway
                if case.get("cwd") not in ("root", "sub"):
                    F("no-chdir-after-chroot", "no chdir follows the chroot: the working directory stays outside the new root")
            elif not (isinstance(privs[1][1], (str, bytes)) and os.fspath(privs[1][1]).startswith(os.sep if isinstance(privs[1][1], str) else b"/")):
                F("chdir-relative", "chdir(%r) after chroot is not an absolute path inside the new root" % (privs[1][1],))
        if server is not None and server.config.get("pygopherd", "root") != "/":
            F("root-not-rewritten", "after chroot the document root is %r, not '/'" % server.config.get("pygopherd", "root"))
    else:
        if "chroot" in pn:
            F("unexpected-chroot", "chroot called although usechroot is off")
        if server is not None and server.config.get("pygopherd", "root") != root:
            F("root-rewritten", "document root changed to %r without chroot" % server.config.get("pygopherd", "root"))
    for t in trace:
        if t[0] == "partial-id-change":
            F("ids-not-dropped-completely:" + str(t[1]), "%s%r changes only part of the process's ids: the rest stays privileged and can be used to get "
                                                         "everything back" % (t[1], tuple(t[2:])))
            break
    if "initgroups" in names:
        F("groups-kept:initgroups", "initgroups() gives the process the account's supplementary groups instead of clearing them")
    if case["setuid"] or case["setgid"]:
        if "setgroups" not in pn:
            F("setgroups-missing", "supplementary groups are not cleared")
        else:
            sg = privs[pn.index("setgroups")]
            if len(sg) < 2 or len(tuple(sg[1])) != 0:
                F("setgroups-not-empty", "setgroups(%r) does not clear the supplementary groups" % (sg[1:],))
            for later in ("setregid", "setreuid"):
                if later in pn and pn.index(later) < pn.index("setgroups"):
                    F("order:%s-before-setgroups" % later, "%s happens before the supplementary groups are cleared" % later)
    if case["setgid"]:
        if "setregid" not in pn:
            F("setregid-missing", "group is not changed")
        elif privs[pn.index("setregid")][1:] != (wgid, wgid):
            F("setregid-args", "setregid%r, expected (%d, %d)" % (privs[pn.index("setregid")][1:], wgid, wgid))
    elif "setregid" in pn:
        F("unexpected-setregid", "setregid called without setgid option")
    if case["setuid"]:
        if "setreuid" not in pn:
            F("setreuid-missing", "user is not changed")
        elif privs[pn.index("setreuid")][1:] != (wuid, wuid):
            F("setreuid-args", "setreuid%r, expected (%d, %d)" % (privs[pn.index("setreuid")][1:], wuid, wuid))
        if "setregid" in pn and "setreuid" in pn and pn.index("setreuid") < pn.index("setregid"):
            F("order:setreuid-before-setregid", "the user is changed before the group (the group change would then be refused)")
        if case["chroot"] and "chroot" in pn and "setreuid" in pn and pn.index("setreuid") < pn.index("chroot"):
            F("order:setreuid-before-chroot", "the user is changed before chroot")
    elif "setreuid" in pn:
        F("unexpected-setreuid", "setreuid called without setuid option")
    if server is None:
        F("no-server", "initialize returned no server")
    return fails


def _startdir(case, base, root):
    """the directory the server is started from (None = somewhere unrelated)"""
    cwd = case.get("cwd")
    if cwd == "root":
        return root
    if cwd == "sub":
        return os.path.join(root, "sub")
    if cwd == "sibling":
        d = root + "-private"
        os.makedirs(d, exist_ok=True)
        os.chmod(d, 0o755)
        return d
    return None


def _real_child(case, base, root):
    """fork; perform the REAL init_security; report cwd / escape / ids.  Returns dict or None if not permitted."""
    import grp
    import pwd
    from pygopherd import initialization, logger
    try:
        pw = pwd.getpwnam("nobody")
        gr = grp.getgrnam("nogroup")
    except KeyError:
        return None
    cfg = drive.make_config(root, "full")
    cfg.set("pygopherd", "usechroot", "yes" if case["chroot"] else "no")
    if case["setuid"]:
        cfg.set("pygopherd", "setuid", "nobody")
    if case["setgid"]:
        cfg.set("pygopherd", "setgid", "nogroup")
    outside = os.path.join(base, "outside")
    os.mkdir(outside)
    with open(os.path.join(base, "outside-marker"), "w") as f:
        f.write("x")
    os.chmod(base, 0o755)
    os.chmod(outside, 0o755)
    r, w = os.pipe()
    pid = os.fork()
    if pid == 0:
        out = {}
        try:
            os.close(r)
            logger.log = lambda m: None
            os.chdir(_startdir(case, base, root) or outside)
            if case.get("unpriv"):
                # become an ordinary user for real, then ask for the configured drop: every first step must be refused
                os.setgroups([])
                os.setregid(gr[2], gr[2])
                os.setreuid(pw[2], pw[2])
                try:
                    os.setgroups([])
                    out["still_privileged"] = True
                except PermissionError:
                    pass
            try:
                initialization.init_security(cfg)
            except PermissionError as e:
                out["notpermitted"] = str(e)
            else:
                try:
                    out["cwd"] = os.getcwd()
                except OSError as e:
                    out["cwd"] = "ERR:%s" % e
                out["sees_outside_marker"] = os.path.exists("../outside-marker")
                out["uid"], out["gid"], out["groups"] = os.getuid(), os.getgid(), os.getgroups()
                out["euid"], out["egid"] = os.geteuid(), os.getegid()
                out["root_listing"] = sorted(os.listdir("/"))[:5]
        except BaseException as e:  # noqa
            out["error"] = repr(e)
        finally:
            try:
                os.write(w, json.dumps(out).encode())
            finally:
                os._exit(0)
    os.close(w)
    data = b""
    while True:
        chunk = os.read(r, 65536)
        if not chunk:
            break
        data += chunk
    os.close(r)
    os.waitpid(pid, 0)
    out = json.loads(data.decode() or "{}")
    out["want_uid"], out["want_gid"] = pw[2], gr[2]
    return out


class _NullCtx:
    def __getattr__(self, n):
        return lambda *a, **k: None


_CHILD = r"""
import json, sys
from pgv.props import c19
case = json.loads(sys.argv[1])
fails = c19.check_case(case, c19._NullCtx())
print("RESULT " + json.dumps([[f.sig, f.msg] for f in fails]))
"""


def _in_fresh_interpreter(case, ctx):
    import json
    import subprocess
    import sys
    inner = {k: v for k, v in case.items() if k != "hashseed"}
    env = dict(os.environ, PYTHONHASHSEED=str(case["hashseed"]))
    p = subprocess.run([sys.executable, "-W", "ignore", "-c", _CHILD, json.dumps(inner)], env=env, capture_output=True, text=True,
                       cwd=os.path.dirname(os.path.dirname(os.path.dirname(os.path.abspath(__file__)))), timeout=120)
    line = [l for l in p.stdout.splitlines() if l.startswith("RESULT ")]
    if not line:
        raise RuntimeError("fresh interpreter gave no result: rc=%s %s" % (p.returncode, p.stderr[-400:]))
    ctx.label("fresh-interpreter", "hashseed:%d" % case["hashseed"])
    ctx.nontriv(("hashseed", case["hashseed"], case["chroot"], case["fail"]))
    return [Fail(sig, "%s (a server start with PYTHONHASHSEED=%d)" % (msg, case["hashseed"])) for sig, msg in json.loads(line[0][7:])]


def check_case(case, ctx):
    if "hashseed" in case:
        return _in_fresh_interpreter(case, ctx)
    from pygopherd import initialization
    base, root = world.build([["readme.txt", "f", "x\n"], ["sub/f.txt", "f", "y\n"]], "c19")
    try:
        ctx.label("chroot:%s" % case["chroot"], "setuid:%s" % case["setuid"], "setgid:%s" % case["setgid"],
                  "fail:%s" % case["fail"], "real" if case["real"] else "recorded", "ids:%s" % case.get("ids", 0),
                  "started-from:%s" % case.get("cwd", "unrelated"), "errno:%s" % case.get("errno", "EPERM"))
        if case["chroot"] or case["setuid"] or case["setgid"] or case["fail"]:
            ctx.nontriv()
        if case["real"]:
            if os.geteuid() != 0:
                ctx.count("real_child_skipped")
                return []
            out = _real_child(case, base, root)
            if case.get("unpriv") and out is not None and not out.get("still_privileged") and "error" not in out:
                ctx.count("real_unprivileged_child_runs")
                ctx.sample({"case": case, "child_report": out}, cls="unpriv%s" % case["chroot"])
                if "notpermitted" not in out:
                    return [Fail("start-up-not-aborted:real-unprivileged",
                                 "an ordinary user asked for chroot=%s setuid=%s setgid=%s: every step is refused by the kernel, "
                                 "yet init_security returned and start-up would go on (ids now %r/%r, groups %r)" % (
                                     case["chroot"], case["setuid"], case["setgid"], out.get("uid"), out.get("gid"), out.get("groups")))]
                return []
            if out is None or "notpermitted" in out or case.get("unpriv"):
                ctx.count("real_child_skipped")
                return []
            ctx.count("real_child_runs")
            ctx.sample({"case": case, "child_report": out}, cls="real%s" % case["chroot"])
            fails = []
            if "error" in out:
                return [Fail("real-child-error", "real privilege drop failed: %s" % out["error"])]
            if case["chroot"]:
                if out["cwd"].startswith("ERR") or "unreachable" in out["cwd"] or out["sees_outside_marker"]:
                    fails.append(Fail("no-chdir-after-chroot:real", "after the real chroot the working directory is outside the new root "
                                      "(getcwd=%r, a file beside the old cwd is %sreachable through '..')" % (out["cwd"], "" if out["sees_outside_marker"] else "not ")))
            if case["setuid"] and (out["uid"] != out["want_uid"] or out["euid"] != out["want_uid"]):
                fails.append(Fail("uid-not-dropped:real", "uid/euid after start-up: %r/%r" % (out["uid"], out["euid"])))
            if case["setgid"] and (out["gid"] != out["want_gid"] or out["egid"] != out["want_gid"]):
                fails.append(Fail("gid-not-dropped:real", "gid/egid after start-up: %r/%r" % (out["gid"], out["egid"])))
            if (case["setuid"] or case["setgid"]) and [g for g in out["groups"] if g != out["gid"]]:
                fails.append(Fail("groups-not-cleared:real", "supplementary groups after start-up: %r" % out["groups"]))
            return fails
        conf = _write_conf(base, root, case)
        trace = []
        raised = None
        server = None
        drive.reset_globals()
        start = _startdir(case, base, root)
        oldcwd = os.getcwd()
        if start:
            os.chdir(start)
        with _Patches(trace, case["fail"], case.get("ids", 0), case.get("errno", "EPERM"), case.get("uid"), case.get("gid")):
            try:
                server = initialization.initialize(conf)
            except BaseException as e:
                if isinstance(e, (KeyboardInterrupt, SystemExit)):
                    raise
                raised = e
        os.chdir(oldcwd)
        drive._mime_inited = None  # initialize() re-ran init_mimetypes
        ctx.sample({"case": case, "trace": [list(map(str, t)) for t in trace if t[0] != "config.set"]},
                   cls="%s%s%s" % (case["chroot"], case["setuid"], case["fail"]))
        if raised is not None and case["fail"] is None and not isinstance(raised, Exception):
            raise raised
        fails = _predicates(case, trace, raised, server, root)
        if server is not None and raised is None:
            # the root the handlers will really resolve selectors against (memoised process-wide on first use)
            from pygopherd.handlers import base as hbase
            eff = hbase.VFS_Real(server.config).getrootpath()
            want = "/" if case["chroot"] else root
            if os.path.normpath(eff) != os.path.normpath(want):
                fails.append(Fail("effective-root:%s" % ("chroot" if case["chroot"] else "plain"),
                                  "after start-up (usechroot=%s) the handlers resolve selectors against %r, expected %r" % (
                                      case["chroot"], eff, want)))
        return fails
    finally:
        world.rmtree(base)
