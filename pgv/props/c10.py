"""C10 - The directory cache is transparent and never older than its lifetime (stateful, model-based)."""
from __future__ import annotations

import os
import re
import shutil

from hypothesis import strategies as st
from hypothesis.stateful import RuleBasedStateMachine, invariant, precondition, rule

from pgv import clients, drive, world
from pgv.core import Fail

ID = "C10"
LEVEL = "exploration"
RULE = ("Hypothesis RuleBasedStateMachine over one site (/, /a, /b, /a/c): rules create / delete / rename files, edit "
        ".names, .cap and .abstract sidecars, grow a file in place, advance the clock (either the server's clock is shifted "
        "ahead or all cache files are aged with os.utime, ages kept >= 3 s "
        "away from the lifetime), and list a directory through a generated protocol form. Model: per directory (age, "
        "snapshot); a listing is a hit iff a cache exists and age < lifetime (age NOT reset by a hit), and must then "
        "equal the snapshot rendered in the requesting protocol, otherwise the fresh listing; both renderings come "
        "from a reference server with caching off run on a copy of the tree as it was at snapshot time. Lifetimes "
        "1000 s and 0. Non-trivial history: a hit after a mutation of that directory, plus either a hit by a protocol "
        "other than the writer's or an expiry that a refresh-on-hit would have postponed. Distinct = hash of the step list.")
ASSUMPTIONS = [
    "moving the clock is emulated by ageing the cache files (the only time-dependent quantity is now - mtime(cache))",
    "directory timestamps (HTTP Last-Modified, Gopher+ Mod-Date) are masked: writing a cache file changes them",
    "the directory's own .abstract header is re-read on every request by design and is not edited",
]

FORMS = ["gopher", "gplus", "gdollar", "http", "wap", "gemini", "spartan"]
DIRS = ["/", "/a", "/b", "/a/c"]
PHYS = {"/zalias": "/a"}  # a second name (symlink in the root) of a directory: both names share one cache file
LIST_DIRS = DIRS + ["/zalias"]
L = 1000
_MASKS = [(re.compile(rb"Last-Modified: [^\r\n]*\r\n"), b"Last-Modified: X\r\n"),
          (re.compile(rb" Mod-Date: [^\r\n]*\r\n"), b" Mod-Date: X\r\n")]


def _mask(b):
    for rx, rep in _MASKS:
        b = rx.sub(rep, b)
    return b


def _copytree(src, dst):
    shutil.copytree(src, dst, symlinks=True, copy_function=shutil.copy2,
                    ignore=lambda d, names: [n for n in names if n.startswith(".cache.pygopherd")])
    for dp, dn, fn in os.walk(src):
        rel = os.path.relpath(dp, src)
        st_ = os.stat(dp)
        os.utime(os.path.join(dst, rel), (st_.st_atime, st_.st_mtime))


class CacheWorld:
    """Interpreter of step lists: real server on a live tree + explicit cache model."""

    INITIAL = [
        ["readme.txt", "f", "readme\n"], ["zeta.c", "f", "int z;\n"], ["page.html", "f", "<html><title>Page Title</title></html>\n"],
        ["a/one.txt", "f", "1\n"], ["a/two.gif", "f", "GIF89a"], ["a/c/deep.txt", "f", "deep\n"], ["a/c/x.pdf", "f", "%PDF"],
        ["b/only.txt", "f", "only\n"], ["a/c/.abstract", "f", "about c\n"], ["a/empty.txt", "f", ""], ["nil.dat", "f", ""], ["zalias", "l", "a"],
        # sidecars that only Gopher+ item information shows: an entry cached by one protocol carries them for every reader
        ["a/one.txt.keywords", "f", "one, first\n"], ["a/one.txt.ask", "f", "Ask: Name?\n"], ["readme.txt.3d", "f", "3d\n"],
        ["b/only.txt.keywords", "f", "only\n"], ["a/c/deep.txt.abstract", "f", "deep abstract\n"],
    ]

    def __init__(self, lifetime, ctx=None):
        self.lifetime = lifetime
        self.ctx = ctx
        self.base, self.root = world.build(self.INITIAL, "c10")
        self.cfg = drive.make_config(self.root, "shipped", **{"handlers.dir.DirHandler::cachetime": str(lifetime)})
        self.cache = {}  # dirsel -> {"age": int, "snap": path, "writer": form, "mutated": bool, "hits": n}
        # second way of letting time pass: the server's clock (time.time as seen by handlers/dir.py) runs `offset` seconds
        # ahead; cache files the server writes meanwhile get their mtime moved ahead by the same amount
        self.offset = 0
        self.cf_mtime = {}
        import sys
        import time as _time
        import pygopherd.handlers.dir as hdir  # noqa: F401  (make sure it is loaded)
        import pygopherd.protocols.base  # noqa: F401
        self._realtime = _time
        world_ = self

        class _Clock:
            def time(self):
                return world_._realtime.time() + world_.offset

            def __getattr__(self, n):
                return getattr(world_._realtime, n)
        # the server's clock: every module of the server that has imported `time` sees it (whichever of them the cache
        # code asks for the time)
        self._clocked = [m for n, m in list(sys.modules.items())
                         if n.startswith("pygopherd") and m is not None and getattr(m, "time", None) is _time]
        clock = _Clock()
        for m in self._clocked:
            m.time = clock
        self.nsnap = 0
        self.steps = []
        self.flags = {"hit_after_mutation": False, "cross_protocol_hit": False, "expiry_after_hit": False, "alias_takeover": False, "regeneration_failed": False}
        self.broken = {}

    def close(self):
        for m in self._clocked:
            m.time = self._realtime
        world.rmtree(self.base)

    def _sync_cache_mtimes(self):
        """cache files the server has just written carry the real clock's time: move them onto the server's clock"""
        for dp, dn, fn in os.walk(self.root):
            if ".cache.pygopherd.dir" in fn:
                cf = os.path.join(dp, ".cache.pygopherd.dir")
                st_ = os.stat(cf)
                if self.cf_mtime.get(cf) != st_.st_mtime:
                    if self.offset:
                        os.utime(cf, (st_.st_atime, st_.st_mtime + self.offset))
                    self.cf_mtime[cf] = os.stat(cf).st_mtime

    def _dirpath(self, dsel):
        return os.path.join(self.root, dsel.strip("/")) if dsel != "/" else self.root

    def files(self, dsel):
        return sorted(n for n in os.listdir(self._dirpath(dsel))
                      if not n.startswith(".") and os.path.isfile(os.path.join(self._dirpath(dsel), n)))

    def _mut(self, dsel):
        c = self.cache.get(PHYS.get(dsel, dsel))
        if c:
            c["mutated"] = True
        parent = os.path.dirname(dsel) or "/"
        if dsel != "/" and self.cache.get(parent):
            pass  # a child's contents are not part of the parent's entries

    def apply(self, step):
        """Executes one step; returns list of Fail."""
        self.steps.append(step)
        op = step["op"]
        d = step.get("dir", "/")
        p = self._dirpath(d)
        if op == "create":
            if not os.path.isdir(os.path.join(p, step["name"])):
                with open(os.path.join(p, step["name"]), "w") as f:
                    f.write(step.get("content", "new\n"))
                self._mut(d)
        elif op == "delete":
            fs = self.files(d)
            if fs:
                os.unlink(os.path.join(p, fs[step["idx"] % len(fs)]))
                self._mut(d)
        elif op == "rename":
            fs = self.files(d)
            if fs and step["name"] not in os.listdir(p):
                os.rename(os.path.join(p, fs[step["idx"] % len(fs)]), os.path.join(p, step["name"]))
                self._mut(d)
        elif op == "names":
            fs = self.files(d)
            text = ""
            if fs and step["override"]:
                text += "Path=./%s\nName=%s\n" % (fs[step["idx"] % len(fs)], step["title"])
                if step["numb"]:
                    text += "Numb=%d\n" % step["numb"]
                text += "\n"
            if step["newlink"] == "remote0":
                # entry attributes that are set but falsy (port 0) must come back from the cache as they went in
                text += "Name=%s\nType=1\nPath=/x\nHost=far.example\nPort=0\n" % (step["title"] + " far")
            elif step["newlink"]:
                text += "Name=%s\nType=1\nPath=/b\nHost=+\nPort=+\n" % (step["title"] + " link")
            with open(os.path.join(p, ".names"), "w") as f:
                f.write(text)
            self._mut(d)
        elif op == "cap":
            fs = self.files(d)
            if fs:
                os.makedirs(os.path.join(p, ".cap"), exist_ok=True)
                with open(os.path.join(p, ".cap", fs[step["idx"] % len(fs)]), "w") as f:
                    f.write("Name=%s\n" % step["title"])
                self._mut(d)
        elif op == "sidecar":
            fs = self.files(d)
            if fs:
                with open(os.path.join(p, fs[step["idx"] % len(fs)] + ".abstract"), "w") as f:
                    f.write(step["title"] + "\n")
                self._mut(d)
        elif op == "breaklinks":
            # a malformed link file: generating the listing raises until it is repaired
            with open(os.path.join(p, ".Links"), "w") as f:
                f.write("Name=Broken\nType=1\nPath=/b\nHost=far.example\nPort=7O\n" if step.get("how") != "type" else "Name=Broken\nType=\nPath=/b\n")
            self.broken[PHYS.get(d, d)] = True
            self._mut(d)
        elif op == "fixlinks":
            try:
                os.unlink(os.path.join(p, ".Links"))
            except OSError:
                pass
            self.broken[PHYS.get(d, d)] = False
            self._mut(d)
        elif op == "grow":
            fs = self.files(d)
            if fs:
                with open(os.path.join(p, fs[step["idx"] % len(fs)]), "a") as f:
                    f.write("x" * step["n"])
                self._mut(d)
        elif op == "advance":
            dt = step["dt"]
            # keep every age >= 3 s away from the lifetime (integer mtimes, real milliseconds elapse)
            while any(abs(c["age"] + dt - self.lifetime) < 4 for c in self.cache.values()):
                dt += 9
            if step.get("how") == "shift":
                self.offset += dt
            for dsel, c in self.cache.items():
                cf = os.path.join(self._dirpath(dsel), ".cache.pygopherd.dir")
                if os.path.exists(cf) and step.get("how") != "shift":
                    st_ = os.stat(cf)
                    os.utime(cf, (st_.st_atime - dt, st_.st_mtime - dt))
                    self.cf_mtime[cf] = os.stat(cf).st_mtime
                c["age"] += dt
        elif op == "list":
            try:
                return self._list(d, step["form"])
            finally:
                self._sync_cache_mtimes()
        elif op == "slowlist":
            # a client whose request arrives in two pieces, `dt` seconds apart (the request line, then the header block): the
            # time passes while the server waits for the rest, i.e. before it decides about the cache
            dt = step["dt"]
            while any(abs(c["age"] + dt - self.lifetime) < 4 for c in self.cache.values()):
                dt += 9
            for c in self.cache.values():
                c["age"] += dt
            try:
                return self._list(d, step["form"], stall=dt)
            finally:
                self._sync_cache_mtimes()
        elif op == "peek":
            # a request that looks at the directory without listing it (HTTP HEAD, Gopher+ item info): it must not
            # leave a cache entry behind (nothing was rendered) nor disturb an existing one
            r = drive.serve(self.cfg, clients.encode(step["form"], d.encode()), tls=clients.FORMS[step["form"]][0])
            self._sync_cache_mtimes()
            if r.escaped is not None or r.exception_classes():
                return [Fail("peek-error", "%s on %s raised %r" % (step["form"], d, r.logs[-1:]))]
        return []

    def _reference(self, tree, dsel, form):
        cfg = drive.make_config(tree, "shipped", **{"handlers.dir.DirHandler::cachetime": "0",
                                                    "handlers.dir.DirHandler::cachefile": ".cache.pygopherd.ref"})
        r = drive.serve(cfg, clients.encode(form, dsel.encode()), tls=clients.FORMS[form][0])
        return r

    def _serve(self, req, tls, stall):
        if not stall:
            return drive.serve(self.cfg, req, tls=tls)
        fired = [False]

        def hook(raw):
            if raw.calls == 2 and not fired[0]:
                fired[0] = True
                self.offset += stall
        drive.SEGMENT_HOOK[0] = hook
        try:
            return drive.serve(self.cfg, req, tls=tls, segment=req.index(b"\n") + 1)
        finally:
            drive.SEGMENT_HOOK[0] = None
            if not fired[0]:
                self.offset += stall  # (the server never asked for the rest: the time passes afterwards)
                if self.ctx is not None:
                    self.ctx.label("slow-client:rest-never-read")

    def _list(self, dsel, form, stall=0):
        key = PHYS.get(dsel, dsel)
        c = self.cache.get(key)
        # one cache file per directory: an entry written under the directory's other name is not used (and is replaced)
        hit = self.lifetime > 0 and c is not None and c["age"] < self.lifetime and c.get("sel", key) == dsel
        if c is not None and c.get("sel", key) != dsel:
            self.flags["alias_takeover"] = True
        r = self._serve(clients.encode(form, dsel.encode()), clients.FORMS[form][0], stall)
        fails = []
        errored = r.escaped is not None or bool(r.exception_classes())
        if errored and not self.broken.get(key):
            return [Fail("listing-error:%s" % (r.handled_signatures() or ["escaped"])[0],
                         "listing %s via %s raised %r" % (dsel, form, r.logs[-1:]))]
        if hit:
            exp = self._reference(c["snap"], dsel, form)
            if c["mutated"]:
                self.flags["hit_after_mutation"] = True
            if c["writer"] != form:
                self.flags["cross_protocol_hit"] = True
            c["hits"] += 1
            kind = "hit"
        else:
            if c is not None and c["hits"] and c["age"] >= self.lifetime > 0 and c["age_at_last_hit"] is not None \
                    and c["age"] - c["age_at_last_hit"] < self.lifetime:
                self.flags["expiry_after_hit"] = True
            # fresh: snapshot := copy of the live tree now
            self.nsnap += 1
            snap = os.path.join(self.base, "snap%d" % self.nsnap)
            _copytree(self.root, snap)
            exp = self._reference(snap, dsel, form)
            if c is not None and not errored:
                shutil.rmtree(c["snap"], ignore_errors=True)
            if errored:
                # the directory cannot be listed at present (a malformed link file): the reference fails the same way, and
                # nothing was written - whatever cache entry existed stays as it was (expired)
                shutil.rmtree(snap, ignore_errors=True)
                if c is not None:
                    self.cache[key] = c
                self.flags["regeneration_failed"] = True
            else:
                self.cache[key] = {"age": 0, "snap": snap, "writer": form, "mutated": False, "hits": 0,
                                   "age_at_last_hit": None, "sel": dsel}
            kind = "miss"
        if hit:
            c["age_at_last_hit"] = c["age"]
        if self.ctx is not None:
            self.ctx.label("list:" + kind, "list-form:" + form)
        a, b_ = _mask(r.response), _mask(exp.response)
        if a != b_:
            sig = "stale-or-wrong:%s:%s" % (kind, "lifetime0" if self.lifetime == 0 else "lifetime")
            fails.append(Fail(sig, "step %d: listing of %s via %s (model says %s, cache age %s, lifetime %d) differs from the %s" % (
                len(self.steps) - 1, dsel, form, kind, c["age"] if c else None, self.lifetime,
                "listing generated when the cache entry was written" if hit else "current directory"),
                {"got": world.u(a[:700]), "expected": world.u(b_[:700])}))
        return fails


# ---------------------------------------------------------------------------------------------- state machine

title_st = st.text("abcdefghijklmnop", min_size=1, max_size=8)
name_st = st.builds(lambda b, e: b + e, st.text("abcdefghijk", min_size=1, max_size=5), st.sampled_from([".txt", ".c", ".gif", ""]))

_current = {"ctx": None, "last_steps": None, "lifetime": L, "failed": None}


class CacheMachine(RuleBasedStateMachine):
    def __init__(self):
        super().__init__()
        self.w = CacheWorld(_current["lifetime"], _current["ctx"])
        _current["last_steps"] = self.w.steps
        _current["last_world"] = self.w

    def teardown(self):
        w = self.w
        ctx = _current["ctx"]
        if ctx is not None:
            ctx.begin({"lifetime": w.lifetime, "steps": w.steps})
            fl = w.flags
            if w.lifetime == 0:
                if any(s["op"] == "list" for s in w.steps) and any(s["op"] not in ("list", "advance") for s in w.steps):
                    ctx.nontriv()
            elif fl["hit_after_mutation"] and (fl["cross_protocol_hit"] or fl["expiry_after_hit"]):
                ctx.nontriv()
            for k, v in fl.items():
                if v:
                    ctx.label("history:" + k)
            ctx.sample({"lifetime": w.lifetime, "steps": w.steps[:25]}, cls="life%d" % w.lifetime)
        w.close()

    def _do(self, step):
        fails = self.w.apply(step)
        if fails:
            _current["failed"] = (list(self.w.steps), fails)
            raise AssertionError(fails[0].sig)

    @rule(d=st.sampled_from(DIRS), name=name_st, content=st.sampled_from(["new\n", "new\n", "", "x" * 2000]))
    def create(self, d, name, content):
        self._do({"op": "create", "dir": d, "name": name, "content": content})

    @rule(d=st.sampled_from(DIRS), idx=st.integers(0, 5))
    def delete(self, d, idx):
        self._do({"op": "delete", "dir": d, "idx": idx})

    @rule(d=st.sampled_from(DIRS), idx=st.integers(0, 5), name=name_st)
    def rename(self, d, idx, name):
        self._do({"op": "rename", "dir": d, "idx": idx, "name": name})

    @rule(d=st.sampled_from(DIRS), idx=st.integers(0, 5), title=title_st, override=st.booleans(), newlink=st.sampled_from([False, True, True, "remote0"]),
          numb=st.sampled_from([0, 0, 1, 2, -1]))
    def names(self, d, idx, title, override, newlink, numb):
        self._do({"op": "names", "dir": d, "idx": idx, "title": title, "override": override, "newlink": newlink, "numb": numb})

    @rule(d=st.sampled_from(DIRS), idx=st.integers(0, 5), title=title_st)
    def cap(self, d, idx, title):
        self._do({"op": "cap", "dir": d, "idx": idx, "title": title})

    @rule(d=st.sampled_from(DIRS), idx=st.integers(0, 5), title=title_st)
    def sidecar(self, d, idx, title):
        self._do({"op": "sidecar", "dir": d, "idx": idx, "title": title})

    @rule(d=st.sampled_from(DIRS), form=st.sampled_from(["head", "gbang"]))
    def peek(self, d, form):
        self._do({"op": "peek", "dir": d, "form": form})

    @rule(d=st.sampled_from(DIRS), form=st.sampled_from(["head", "gbang"]), title=title_st, lf=st.sampled_from(FORMS))
    def decorate_peek_list(self, d, form, title, lf):
        """metadata edit, then a non-listing request on a cold or expired cache, then a listing"""
        self._do({"op": "names", "dir": d, "idx": 0, "title": title, "override": True, "newlink": True, "numb": 1})
        self._do({"op": "advance", "dt": 2500})
        self._do({"op": "peek", "dir": d, "form": form})
        self._do({"op": "list", "dir": d, "form": lf})

    @rule(dt=st.sampled_from([1, 30, 200, 450, 600, 990, 1010, 2500, 86400 - 20, 86400 + 30, 2 * 86400 + 500, 7 * 86400 + 5]),
          how=st.sampled_from(["utime", "shift"]))
    def advance(self, dt, how):
        self._do({"op": "advance", "dt": dt, "how": how})

    @rule(d=st.sampled_from(DIRS), f1=st.sampled_from(FORMS), f2=st.sampled_from(["gdollar", "gopher", "http", "gemini"]),
          t1=title_st, t2=title_st, idx=st.integers(0, 5), dt=st.sampled_from([1010, 2500, 86400 + 30]),
          edit=st.sampled_from(["names", "grow", "cap"]), how=st.sampled_from(["shift", "shift", "utime"]))
    def inplace_cycle(self, d, f1, f2, t1, t2, idx, dt, edit, how):
        """an edit that leaves the directory's own mtime alone (a link file rewritten, a file grown, a .cap file rewritten),
        then the lifetime passes: the next listing must show it"""
        self._do({"op": "names", "dir": d, "idx": idx, "title": t1, "override": True, "newlink": False, "numb": 0})
        self._do({"op": "cap", "dir": d, "idx": idx + 1, "title": t1})
        self._do({"op": "list", "dir": d, "form": f1})
        if edit == "names":
            self._do({"op": "names", "dir": d, "idx": idx, "title": t2, "override": True, "newlink": False, "numb": 0})
        elif edit == "cap":
            self._do({"op": "cap", "dir": d, "idx": idx + 1, "title": t2})
        else:
            self._do({"op": "grow", "dir": d, "idx": idx, "n": 5000})
        self._do({"op": "advance", "dt": dt, "how": how})
        self._do({"op": "list", "dir": d, "form": f2})

    @rule(d=st.sampled_from(LIST_DIRS), f1=st.sampled_from(FORMS), f2=st.sampled_from(["wap", "http"]), name=name_st,
          dt1=st.sampled_from([300, 600, 900]), dt2=st.sampled_from([200, 500, 800]))
    def slow_client_cycle(self, d, f1, f2, name, dt1, dt2):
        """a listing is cached, the directory changes, some time passes, and then a client sends its request line and - dt2
        seconds later - the rest: if the entry is older than the lifetime when the rest has arrived, it is not used"""
        self._do({"op": "list", "dir": d, "form": f1})
        self._do({"op": "create", "dir": d, "name": name})
        self._do({"op": "advance", "dt": dt1, "how": "shift"})
        self._do({"op": "slowlist", "dir": d, "form": f2, "dt": dt2})

    @rule(f1=st.sampled_from(FORMS), f2=st.sampled_from(FORMS), f3=st.sampled_from(FORMS), name=name_st,
          dt1=st.sampled_from([300, 600, 700]), dt2=st.sampled_from([400, 600, 900]), first=st.sampled_from(["/a", "/zalias"]),
          how=st.sampled_from(["utime", "shift"]))
    def alias_cycle(self, f1, f2, f3, name, dt1, dt2, first, how):
        """one name listed, the directory changed, the other name listed within the lifetime, the first name listed again when
        its own listing is older than the lifetime although the cache file is not"""
        other = "/zalias" if first == "/a" else "/a"
        self._do({"op": "list", "dir": first, "form": f1})
        self._do({"op": "create", "dir": "/a", "name": name})
        self._do({"op": "advance", "dt": dt1, "how": how})
        self._do({"op": "list", "dir": other, "form": f2})
        self._do({"op": "advance", "dt": dt2, "how": how})
        self._do({"op": "list", "dir": first, "form": f3})

    @rule(d=st.sampled_from(["/a", "/b"]), f1=st.sampled_from(FORMS), f2=st.sampled_from(FORMS), f3=st.sampled_from(FORMS), name=name_st,
          dt=st.sampled_from([1010, 2500, 86400 + 30]), how=st.sampled_from(["port", "type"]), adv=st.sampled_from(["utime", "shift"]))
    def broken_cycle(self, d, f1, f2, f3, name, dt, how, adv):
        """a listing is cached, the directory changes and gets a malformed link file, the lifetime passes: the next listing
        cannot be generated - it must not fall back to the expired entry; after the repair it is generated afresh"""
        self._do({"op": "list", "dir": d, "form": f1})
        self._do({"op": "create", "dir": d, "name": name})
        self._do({"op": "breaklinks", "dir": d, "how": how})
        self._do({"op": "advance", "dt": dt, "how": adv})
        self._do({"op": "list", "dir": d, "form": f2})
        self._do({"op": "fixlinks", "dir": d})
        self._do({"op": "list", "dir": d, "form": f3})

    @rule(d=st.sampled_from(LIST_DIRS), form=st.sampled_from(FORMS))
    def list_a(self, d, form):
        self._do({"op": "list", "dir": d, "form": form})

    @rule(d=st.sampled_from(["/", "/a"]), form=st.sampled_from(FORMS))
    def list_b(self, d, form):
        self._do({"op": "list", "dir": d, "form": form})

    @rule(d=st.sampled_from(["/", "/a"]), form=st.sampled_from(["gdollar", "http", "gopher"]))
    def list_c(self, d, form):
        self._do({"op": "list", "dir": d, "form": form})

    @rule(d=st.sampled_from(DIRS), f1=st.sampled_from(FORMS), f2=st.sampled_from(FORMS), f3=st.sampled_from(FORMS),
          dt1=st.sampled_from([300, 600, 900, 86400 + 30]), dt2=st.sampled_from([200, 600, 990, 3 * 86400 + 100]), name=name_st, how=st.sampled_from(["utime", "shift"]))
    def age_cycle(self, d, f1, f2, f3, dt1, dt2, name, how):
        """write - age - (mutate) - read - age - read: the shape on which 'a hit refreshes the age' would show"""
        self._do({"op": "list", "dir": d, "form": f1})
        self._do({"op": "advance", "dt": dt1, "how": how})
        self._do({"op": "create", "dir": d, "name": name})
        self._do({"op": "list", "dir": d, "form": f2})
        self._do({"op": "advance", "dt": dt2, "how": how})
        self._do({"op": "list", "dir": d, "form": f3})


def machines(tier):
    return 1600 if tier == "quick" else 30000


def steps_per_machine(tier):
    return 25 if tier == "quick" else 50


def custom_run(tier, seed, shard, nshards, ctx, rec):
    import math
    from hypothesis import HealthCheck, Phase, Verbosity, seed as hseed, settings
    from hypothesis.stateful import run_state_machine_as_test
    n = int(math.ceil(machines(tier) / nshards))
    for lifetime, share in ((L, 0.8), (0, 0.2)):
        _current.update(ctx=ctx, lifetime=lifetime, failed=None)
        sett = settings(max_examples=max(1, int(n * share)), stateful_step_count=steps_per_machine(tier), database=None,
                        deadline=None, report_multiple_bugs=False, verbosity=Verbosity.quiet,
                        suppress_health_check=list(HealthCheck), phases=[Phase.generate, Phase.shrink])
        try:
            run_state_machine_as_test(hseed(seed * 1000 + shard * 2 + (1 if lifetime else 0))(CacheMachine), settings=sett)
        except BaseException as e:
            if isinstance(e, (KeyboardInterrupt, SystemExit)):
                raise
            if _current["failed"] is None:
                raise  # not an oracle failure: harness problem
            steps, fails = _current["failed"]
            # the last failing run Hypothesis performed is the shrunk one; replay it outside Hypothesis
            _current["ctx"] = None
            rec.run_case({"lifetime": lifetime, "steps": steps}, origin="stateful")
            _current["ctx"] = ctx


def check_case(case, ctx):
    """Replay of a step list (regression corpus, --replay, and the shrunk failure of a machine run)."""
    w = CacheWorld(case["lifetime"], None)
    try:
        for s in case["steps"]:
            fails = w.apply(dict(s))
            if fails:
                return fails
        return []
    finally:
        w.close()
