"""C07 - A listing is exactly the visible entries, once each, in a stable order."""
from __future__ import annotations

import os

from hypothesis import strategies as st

from pgv import clients, drive, gen, world
from pgv.core import Fail
from pgv.model import listing as L

ID = "C07"
LEVEL = "exploration"
RULE = ("A directory whose names sit on both sides of every alternative of the shipped ignore pattern (lib/xlib/lib2, x~, "
        ".cache*, robots.txt/robots.txt2/robotsxtxt, *.abstract/.abstractx, *.3d/.3dx, .ask anywhere in the path, ...), "
        "dot-files and dot-dirs, entries hidden by .names (Type=X) or .cap (Type=X/-), under a parent whose own name may "
        "match the pattern; x 2 generated permutations of the OS enumeration order x directory handler (UMN, dir). "
        "Oracles: listed local selectors == model's visible set (both directions, no duplicates); replies identical "
        "for every enumeration order; order agrees with the documented key; every entry kept out is still served by "
        "exact selector. Non-trivial: >= 1 ignored and >= 1 listed entry and a non-identity permutation.")
ASSUMPTIONS = [
    "for dir.DirHandler the manual does not promise dot-file hiding: dot-files outside the ignore pattern are generated "
    "for the UMN handler only",
    "names the selector filter rejects are C12's subject and are not generated",
    "two link files overriding one entry differently have no documented precedence and are not generated",
]

NEIGHBOURS = [
    "lib", "xlib", "lib2", "bin", "bin.txt", "etc", "etc2", "dev", "xdev", "lost+found", "lost+foundx", "xlost+found",
    "x~", "x~y", "~", "a.txt~", ".cache", ".cachefoo", "x.cache", ".cache.pygopherd.dirx", ".forward", ".forwardx", ".message",
    ".hushlogin", ".kermrc", ".notar", ".where", ".wherex", "veronica.ctl", "veronicaXctl", "veronica.ctl2",
    "robots.txt", "robotsxtxt", "robots.txt2", "xrobots.txt", "nohup.out", "nohup.out.1", "gophermap2", "xgophermap",
    "note.abstract", "note.abstractx", "abstract", "note.keyboards", "note.keywords", "q.ask", "q.asked", "q.as", "m.3d", "m.3dx",
    "m.3", ".hidden", ".dotdir/", "a.askdir/", "libdir/", "plain.txt", "zeta", "Alpha", "beta.c", "note", "q", "m", "selfloop",
    # pages with a title of their own (their entry gets its name from the file's content)
    "titled.html", "titled.html", "Second page.html",
]
PARENTS = ["", "d", "a.askb", "x~", ".cachex", "sub/lib", "libs"]
# other configured ignore patterns (index 0 = the shipped one): literal blanks, '#', a character class, an anchored prefix,
# a pattern continued over two lines of the configuration file - with names on both sides of each alternative
PATTS = [None, r"/My Documents$|~$|/\.cache", r"/#[^/]*#$|\.bak$|/\.cache", r"/CVS$|/core$|\.o$|/\.cache", r"/[Tt]humbs\.db$|/\.cache",
         "/build dir$|\n /tmp files$|/\\.cache"]  # (every pattern must keep the server's own cache file out, as the shipped one does)
NEIGHBOURS2 = ["My Documents", "MyDocuments", "My Documents2", "xMy Documents", "#auto#", "auto#", "#x", "a.bak", "a.bakx", "bak", "CVS",
               "CVS2", "core", "score", "main.o", "main.ox", "Thumbs.db", "thumbs.db", "ThumbsXdb", "build dir", "builddir", "tmp files",
               " tmp files", "tmpfiles"]


@st.composite
def _case(draw):
    patt = draw(st.sampled_from([0, 0, 0, 1, 2, 3, 4, 5]))
    names = draw(st.lists(st.sampled_from(NEIGHBOURS + (NEIGHBOURS2 if patt else [])), min_size=3, max_size=12, unique_by=lambda n: n.rstrip("/")))
    names = [n for n in names if n == n.strip()]
    if len(names) < 3:
        names += ["plain.txt", "lib", "zeta"][:3 - len(names)]
    extra = draw(st.lists(gen.names(toplevel=False), max_size=3, unique=True))
    for e in extra:
        if e not in [n.rstrip("/") for n in names]:
            names.append(e)
    # look-alikes: names that differ in bytes but are equal under a normalisation or folding a sort key might apply
    # (composed / decomposed accent, letter case, full-width letters): a tie under such a key must not fall back to the
    # order of enumeration
    for tw in draw(st.lists(st.sampled_from([["caf\xc3\xa9.txt", "cafe\xcc\x81.txt"], ["Index.txt", "index.txt", "INDEX.TXT"],
                                             ["\xef\xbd\x86ull.txt", "full.txt"], ["stra\xc3\x9fe", "strasse", "STRASSE"],
                                             ["\xc3\x85ngstr\xc3\xb6m", "A\xcc\x8angstro\xcc\x88m", "\xe2\x84\xabngstr\xc3\xb6m"]]), max_size=2)):
        for n in tw:
            if n not in names:
                names.append(n)
    handler = draw(st.sampled_from(["umn", "umn", "dir"]))
    if handler == "dir":
        # dot-files the ignore pattern does not cover: UMN only (see ASSUMPTIONS)
        import re
        names = [n for n in names if not (n.startswith(".") and not re.search(PATTS[patt] or gen.SHIPPED_IGNORE, "/" + n.rstrip("/")))]
        if len(names) < 2:
            names += ["plain.txt", "lib"]
    hide = []
    cand = [n for n in names if not n.startswith(".")]
    if handler == "umn" and cand:
        for n in draw(st.lists(st.sampled_from(cand), max_size=2, unique=True)):
            hows = ["namesX", "capX", "cap-", "names~"] + (["namesX/", "namesX/", "names~/"] if n.endswith("/") else [])
            h = [n.rstrip("/"), draw(st.sampled_from(hows))]
            import re as _re
            if h[1].startswith("names") and not _re.search(PATTS[patt] or gen.SHIPPED_IGNORE, "/" + h[0]):
                # (only for entries that would be listed: a './' block for a name the ignore pattern keeps out ADDS an entry)
                # optionally a second, non-hiding block for the same entry (a title), before or after the hiding one, in the
                # same link file or in '.Links' (which sorts before '.names'): hidden stays hidden
                h.append(draw(st.sampled_from([None, None, "before", "after", "other-file"])))
            hide.append(h)
    # entries that keep being listed but carry a .cap file of their own (a title): every .cap file is applied to its own entry
    capnames = []
    if handler == "umn":
        rest = [n.rstrip("/") for n in names if not n.startswith(".") and n.rstrip("/") not in [h[0] for h in hide] and n != "selfloop"]
        if rest:
            capnames = draw(st.lists(st.sampled_from(rest), max_size=2, unique=True))
    # two link files that each ADD an entry, the two tying on title and number: their relative order must not depend on which
    # link file the OS happens to enumerate first
    ties = draw(st.sampled_from([0, 0, 0, 2, 3])) if handler == "umn" else 0
    k = len(names) + 5 + ties
    return {"names": names, "parent": draw(st.sampled_from(PARENTS)), "handler": handler, "hide": hide, "ties": ties, "patt": patt, "capnames": capnames,
            "perm1": draw(st.permutations(list(range(k)))), "perm2": draw(st.permutations(list(range(k)))),
            "form2": draw(st.sampled_from(["http", "gemini", "gdollar", "wap", "spartan"]))}


def strategy(tier):
    return _case()


def examples(tier):
    return 4000 if tier == "quick" else 60000


class _Perm:
    """os.listdir returns a generated permutation for every directory under root."""

    def __init__(self, root, perm):
        self.rootb = os.fsencode(root)
        self.perm = perm

    def __enter__(self):
        self.orig = os.listdir
        orig, rootb, perm = self.orig, self.rootb, self.perm

        def listdir(path=".", *a, **k):
            res = orig(path, *a, **k)
            try:
                pb = os.fsencode(path)
            except TypeError:
                return res
            if pb.startswith(rootb) and perm is not None:
                srt = sorted(res)
                idx = [i for i in perm if i < len(srt)]
                # (more entries than the permutation covers: the rest follows in reverse order - nothing is ever dropped)
                return [srt[i] for i in idx] + [srt[i] for i in range(len(srt) - 1, -1, -1) if i not in idx]
            return res
        os.listdir = listdir
        return self

    def __exit__(self, *a):
        os.listdir = self.orig


def _spec(case):
    pre = case["parent"] + "/" if case["parent"] else ""
    spec = []
    if case["parent"]:
        spec.append([case["parent"], "d", None])
    content = {}
    for n in case["names"]:
        if n.endswith("/"):
            spec.append([pre + n[:-1], "d", None])
            spec.append([pre + n + "inside.txt", "f", "inside %s\n" % n])
        elif n == "selfloop":
            spec.append([pre + n, "l", n])  # a symlink to itself: cannot be served; may be listed or left out
        elif n.startswith("."):
            spec.append([pre + n, "f", "# dot file %s\n" % n])
            content[n] = "# dot file %s\n" % n
        elif n.endswith(".html"):
            body = "<html><head><title>Title of %s</title></head><body>x</body></html>\n" % n[:-5]
            spec.append([pre + n, "f", body])
            content[n] = body
        else:
            spec.append([pre + n, "f", "content of %s\n" % n])
            content[n] = "content of %s\n" % n
    names_blocks = []
    links_blocks = []
    for h in case["hide"]:
        n, how = h[0], h[1]
        extra = h[2] if len(h) > 2 else None
        if how.startswith("names"):
            # the manual's spellings of a path in the same directory: './name', '~/name', either with a trailing '/'
            # (one in three with a comment line between the two: a comment ahead of the Path= line is skipped)
            blk = "Type=X\n%sPath=%s/%s%s\n" % ("# kept out on purpose\n" if (len(names_blocks) + len(n)) % 3 == 0 else "",
                                               "~" if "~" in how else ".", n, "/" if how.endswith("/") else "")
            title = "Name=Titled %s\nPath=./%s\n" % (len(names_blocks), n)
            if extra == "before":
                names_blocks.append(title)
            names_blocks.append(blk)
            if extra == "after":
                names_blocks.append(title)
            if extra == "other-file":
                links_blocks.append(title)
        elif how == "capX":
            spec.append([pre + ".cap/" + n, "f", "Type=X\n"])
        else:
            spec.append([pre + ".cap/" + n, "f", "Type=-\n"])
    if names_blocks:
        spec.append([pre + ".names", "f", "\n".join(names_blocks)])
        content[".names"] = "\n".join(names_blocks)
    for i, n in enumerate(case.get("capnames", [])):
        spec.append([pre + ".cap/" + n, "f", "Name=Title %d\n" % i])
    if links_blocks:
        spec.append([pre + ".Links", "f", "\n".join(links_blocks)])
        content[".Links"] = "\n".join(links_blocks)
    for i in range(case.get("ties", 0)):
        t = "Name=same title\nType=0\nPath=/elsewhere/%d\nHost=other.example\nPort=70\n" % i
        spec.append([pre + ".tie%d" % i, "f", t])
        content[".tie%d" % i] = t
    return spec, ("/" + case["parent"] if case["parent"] else "/"), content


def _cfg(root, handler, patt=0):
    cfg = drive.make_config(root, "shipped", abstract_entries="never", abstract_headers="off",
                            **{"handlers.dir.DirHandler::cachetime": "0"})
    if patt:
        cfg.set("handlers.dir.DirHandler", "ignorepatt", PATTS[patt])
    if handler == "dir":
        h = cfg.get("handlers.HandlerMultiplexer", "handlers").replace("UMN.UMNDirHandler", "dir.DirHandler")
        cfg.set("handlers.HandlerMultiplexer", "handlers", h)
    return cfg


def check_case(case, ctx):
    spec, dsel, content = _spec(case)
    d, root = world.build(spec)
    try:
        cfg = _cfg(root, case["handler"], case.get("patt", 0))
        ignorepatt = cfg.get("handlers.dir.DirHandler", "ignorepatt")
        umn = case["handler"] == "umn"
        base = "" if dsel == "/" else dsel
        on_disk = sorted(os.fsdecode(n) for n in os.listdir(os.path.join(os.fsencode(root), world.b(case["parent"]))))
        kinds = [(n, os.path.isdir(os.path.join(os.fsencode(root), world.b(case["parent"]), os.fsencode(n)))) for n in on_disk]
        vis = L.visible(kinds, world.sel(dsel), ignorepatt, umn=umn)
        hidden_meta = {world.sel(h[0]) for h in case["hide"]} if umn else set()
        want = [n for n in vis if n not in hidden_meta and n != "selfloop"]
        kept_out = [n for n, _ in kinds if n not in want and n != "selfloop"]

        req = clients.encode("gopher", world.b(dsel))
        replies = []
        for perm in (None, case["perm1"], case["perm2"]):
            with _Perm(root, perm):
                r = drive.serve(cfg, req)
            replies.append(r)
        r0 = replies[0]
        ident = list(case["perm1"]) == sorted(case["perm1"]) and list(case["perm2"]) == sorted(case["perm2"])
        if want and kept_out and not ident:
            ctx.nontriv()
        ctx.label("handler:" + case["handler"], "parent:" + (case["parent"] or "/"), "hidden-by-metadata:%d" % len(case["hide"]))
        ctx.sample(cls=case["handler"] + case["parent"])
        fails = []
        pr = clients.parse_response("gopher", r0.response, expect_menu=True)
        if r0.escaped is not None or not pr.ok or pr.problems:
            return [Fail("listing-failed", "listing of %r failed: %r %r" % (dsel, r0.response[:100], r0.logs[-1:]))]
        ents = clients.parse_gopher_menu(pr.body)
        got = [e["target"][1] for e in ents if e["target"] and e["target"][0] == "local" and not e["target"][1].endswith(b"/selfloop")]
        want_sels = [world.unsel(base + "/" + n) for n in want]
        missing = [s for s in want_sels if s not in got]
        extra = [s for s in got if s not in want_sels]
        dups = sorted({s for s in got if got.count(s) > 1})
        if missing:
            fails.append(Fail("missing:%s" % case["handler"], "listing of %r lacks visible entr%s %r" % (dsel, "y" if len(missing) == 1 else "ies", missing[:4])))
        if extra:
            fails.append(Fail("extra:%s:%s" % (case["handler"], _why(extra[0], base, hidden_meta)),
                              "listing of %r shows %r which must be kept out (%s)" % (dsel, extra[:4], _why(extra[0], base, hidden_meta))))
        if dups:
            fails.append(Fail("duplicate:%s" % case["handler"], "listing of %r shows %r more than once" % (dsel, dups[:3])))
        # order independent of enumeration
        for i, r in enumerate(replies[1:], 1):
            if r.response != r0.response:
                fails.append(Fail("order-dependence:%s" % case["handler"],
                                  "listing of %r changes with the OS enumeration order" % dsel,
                                  {"natural": world.u(r0.response[:600]), "permuted": world.u(r.response[:600])}))
                break
        # documented key
        listed = [{"name": e["name"].decode("utf-8", "surrogateescape"), "num": 0} for e in ents if e["kind"] != "info"]
        if umn:
            ov = [o for o in L.order_violations(listed)
                  if listed[o[0]]["name"] != listed[o[0] + 1]["name"]]
            if ov:
                fails.append(Fail("order-key:umn", "listing of %r: %s" % (dsel, ov[0][1])))
        # a second protocol shows the same set
        f2 = case["form2"]
        r2 = drive.serve(cfg, clients.encode(f2, world.b(dsel)), tls=clients.FORMS[f2][0])
        p2 = clients.parse_response(f2, r2.response, expect_menu=True)
        if p2.ok and not p2.problems:
            got2 = [e["target"][1] for e in clients.parse_listing(f2, p2) if e["target"] and e["target"][0] == "local"
                    and not e["target"][1].endswith(b"/selfloop")]
            if got2 != got:
                fails.append(Fail("set-differs:%s" % clients.FORMS[f2][1], "%s shows %r, gopher shows %r" % (f2, got2[:5], got[:5])))
        # everything kept out stays retrievable by exact selector
        for n in kept_out:
            s = world.unsel(base + "/" + n)
            rr = drive.serve(cfg, clients.encode("gopher", s))
            full = os.path.join(os.fsencode(root), world.b(case["parent"]), os.fsencode(n))
            if os.path.isdir(full):
                p = clients.parse_response("gopher", rr.response, expect_menu=True)
                ok = p.ok and not p.problems
            else:
                with open(full, "rb") as f:
                    ok = rr.response == f.read()
            if not ok:
                fails.append(Fail("not-retrievable:%s" % _why(s, base, hidden_meta),
                                  "%r is kept out of the listing and cannot be retrieved by exact selector either: %r" % (s, rr.response[:100])))
                break
        return fails
    finally:
        world.rmtree(d)


def _why(selb, base, hidden_meta):
    n = selb.decode("utf-8", "surrogateescape")[len(base) + 1:]
    if n in hidden_meta:
        return "hidden-by-metadata"
    if n.startswith("."):
        return "dot-file"
    return "ignore-pattern"
