"""C05 - Listings only advertise what the server will serve (link closure)."""
from __future__ import annotations

from hypothesis import strategies as st

from pgv import clients, drive, gen, sites, world
from pgv.core import Fail

ID = "C05"
LEVEL = "exploration"
RULE = ("A generated site (depth <= 3; real dirs, gophermaps, mbox, Maildir, HTML, binary; ZIP/gzip/scripts with the full "
        "list; names with spaces, URL-reserved characters, non-UTF-8 bytes, and for URL-based protocols TAB/CR/LF too) is "
        "crawled breadth-first from / through each protocol's own syntax: every link the client-side parser classifies "
        "as local is re-requested exactly as rendered, must be answered with success and with the kind (menu/document) "
        "its Gopher type advertises, documents with known bytes must arrive intact, and the set of objects reached must "
        "equal the set the site description says exists. Non-trivial: a followed link whose selector has a byte "
        "outside [A-Za-z0-9/._-], is virtual (|...) or crosses into a ZIP; distinct = (site hash, protocol). With the directory "
        "cache on, half of the crawls own a schedule point: while a listing request writes the cache file a second request for the "
        "same listing is served, and what it shows is followed too. Enumerated: a crawl inside a real chroot, and three crawls of a "
        "fixed site under handler lists that leave handlers out (counted under 'other-handler-lists').")
ASSUMPTIONS = [
    "reserved top-level namespaces (URL:, /wap, one-character names with the full list) are not generated as names; the "
    "virtual-argument separators ? and | in the paths of mailboxes/scripts are generated in a dedicated flavour only, "
    "where the server does not recognise such objects as mailboxes (documented separator) - there only the link-closure "
    "clauses are asserted, not the reached-set equality",
    "gophermap links point at existing objects (author errors are not generated)",
]

CRAWL_FORMS = [["gopher", "http", "gemini"], ["gophers", "wap", "spartan"], ["gplus", "https", "waphdr"],
               ["gopher", "gpluss", "http", "wap", "gemini", "spartan"]]
URL_ONLY = ["http", "wap", "gemini", "spartan", "https"]


@st.composite
def _case(draw):
    full = draw(st.booleans())
    gopher_ok = draw(st.sampled_from([True, True, True, False]))
    vsep = draw(st.sampled_from([False, False, False, False, True]))
    longn = draw(st.sampled_from([False, False, False, False, True]))
    if longn:
        # a chain of nested directories with long names: request lines of 1-4 KB (selectors stay below PATH_MAX)
        site = None
        unit = draw(st.sampled_from(["a", "b9", "\xe9", "x y", "\xc3\xa9", "%"]))
        for lvl in range(draw(st.integers(3, 6))):
            n = draw(st.integers(60, 230 // len(unit)))
            inner = [["leaf%d.txt" % lvl, {"kind": "txt", "content": "leaf %d\n" % lvl}]]
            if site is not None:
                inner.append(site)
            site = [unit * n + str(lvl), {"kind": "dir", "items": inner}]
        site = [site, ["top.txt", {"kind": "txt", "content": "top\n"}]]
    else:
        site = draw(sites.site(full=full, gopher_ok=gopher_ok, depth=3, max_items=4, virtual_seps=vsep))
    if vsep and not longn:
        # make sure the flavour is about what it is named after: a mailbox / script below a path with '?' or '|'
        def mark(items, depth=0):
            for ent in items:
                if ent[1]["kind"] in ("mbox", "maildir", "exec") and draw(st.booleans()):
                    ent[0] = draw(st.sampled_from(["?", "|", "a?b", "x|y"])) + ent[0]
                elif ent[1]["kind"] in ("dir",) and draw(st.integers(0, 3)) == 0:
                    ent[0] = ent[0] + draw(st.sampled_from(["?", "|q"]))
                if ent[1]["kind"] in ("dir", "map", "zip"):
                    mark(ent[1]["items"], depth + 1)
        mark(site)
        names = [e[0] for e in site]
        if len(set(names)) != len(names) or not all(gen.servable_name(n, True, full and False) for n in names):
            vsep = False
            site = [["readme.txt", {"kind": "txt", "content": "x\n"}]]
    nlinks = 0
    if not longn and not vsep and draw(st.booleans()):
        nlinks = _add_link_files(draw, site)
    if not longn and not vsep and draw(st.integers(0, 2)) == 0:
        _add_cap_furniture(draw, site)
    return {"full": full, "gopher_ok": gopher_ok, "vsep": vsep, "site": site, "long": longn, "linkfiles": nlinks,
            "cache": draw(st.booleans()), "forms": draw(st.integers(0, len(CRAWL_FORMS) - 1)),
            # symbolic links in the root menu whose targets lie outside the document root (the server is not chrooted here):
            # they are listed, so they must be served
            "outlinks": draw(st.sampled_from([0, 0, 0, 1, 2, 3]))}


def _add_cap_furniture(draw, site):
    """'.cap' directories as people really have them: a caption file for one entry, a SUB-DIRECTORY named like another entry
    (captions of that directory's own files, as gopherd's .cap trees were laid out), a stray empty file."""
    import re

    def walk(items, depth):
        names = [n for n, it in items if it["kind"] in ("txt", "html", "bin", "dir") and not re.search(r"[\t\r\n/]", n)]
        dirs = [n for n, it in items if it["kind"] == "dir" and not re.search(r"[\t\r\n/]", n)]
        if names and not any(n == ".cap" for n, _ in items) and draw(st.integers(0, 1)) == 0:
            entries = []
            if dirs:
                d = draw(st.sampled_from(dirs))
                entries.append([".cap/" + d + "/intro.txt", "f", "Name=Introduction\n"])
            f = draw(st.sampled_from(names))
            if not any(e[0].startswith(".cap/" + f + "/") or e[0] == ".cap/" + f for e in entries):
                entries.append([".cap/" + f, "f", draw(st.sampled_from(["Name=Captioned\n", "", "Numb=2\n"]))])
            items.append([".capfurniture", {"kind": "spec", "entries": entries}])
        for n, it in items:
            if it["kind"] == "dir" and depth < 2:
                walk(it["items"], depth + 1)
    walk(site, 0)


def _add_link_files(draw, site):
    """UMN link files ('.Links') in up to two real directories: local links (no Host=/Port=, or '+') to objects that
    exist elsewhere in the site, spelled as the manual allows: absolute, './child', 'child/grandchild', '../sibling/x'."""
    import posixpath
    import re
    objs = [o for o in sites.objects(site)
            if "|" not in o["sel"] and "?" not in o["sel"] and not re.search(r"[\t\r\n]", o["sel"]) and not o["what"].startswith("zip:")
            and o["what"] in ("txt", "html", "bin", "dir", "map", "mbox", "maildir", "gz", "zip")]
    if not objs:
        return 0
    conts = [("", site)]

    def walk(items, base):
        for name, it in items:
            if it["kind"] == "dir" and not re.search(r"[\t\r\n?|]", base + "/" + name):
                conts.append((base + "/" + name, it["items"]))
                walk(it["items"], base + "/" + name)
    walk(site, "")
    n = 0
    for dsel, items in draw(st.lists(st.sampled_from(conts), min_size=1, max_size=2, unique_by=lambda c: c[0])):
        if any(nm == ".Links" for nm, _ in items):
            continue
        blocks = []
        for i, o in enumerate(draw(st.lists(st.sampled_from(objs), min_size=1, max_size=3))):
            rel = posixpath.relpath(o["sel"], dsel or "/")
            below = o["sel"].startswith(dsel + "/")
            child = below and "/" not in o["sel"][len(dsel) + 1:]
            styles = ["abs", "rel"] + (["dotslash"] if child else [])
            style = draw(st.sampled_from(styles))
            if rel == "." or rel.startswith("URL:"):
                style = "abs"
            path = {"abs": o["sel"], "rel": rel, "dotslash": "./" + o["sel"][len(dsel) + 1:]}[style]
            if path != path.strip() or path.startswith("#"):
                continue
            typ = "1" if o["kind"] == "menu" else ("9" if o["what"] in ("bin",) else ("h" if o["what"] == "html" else "0"))
            host = draw(st.sampled_from(["", "Host=+\nPort=+\n"]))
            blocks.append("Name=Link %d %s\nType=%s\nPath=%s\n%s" % (i, style, typ, path, host))
            n += 1
        if blocks:
            items.append([".Links", {"kind": "links", "text": "\n".join(blocks)}])
    return n


def strategy(tier):
    return _case()


def examples(tier):
    return 2500 if tier == "quick" else 60000


def _has_vsep_problem(items, path_has=False):
    """a mailbox / script whose own path contains '?' or '|' (the recorded finding)"""
    for name, it in items:
        here = path_has or "?" in name or "|" in name
        if it["kind"] in ("mbox", "maildir", "exec") and here:
            return True
        if it["kind"] in ("dir", "map", "zip") and _has_vsep_problem(it["items"], here):
            return True
    return False


class _RacePickle:
    """stands in for the pickle module as the directory handler sees it: before an object is dumped (i.e. when the cache
    file is about to be written) the hook runs"""

    def __init__(self, hook):
        import pickle
        self._p, self._hook, self._busy = pickle, hook, False

    def __getattr__(self, name):
        return getattr(self._p, name)

    def dump(self, *a, **kw):
        if not self._busy:
            self._busy = True
            try:
                self._hook()
            finally:
                self._busy = False
        return self._p.dump(*a, **kw)


def _serve_with_racer(cfg, req, tls, full, raced):
    import pygopherd.handlers.dir as hdir
    saved = hdir.pickle
    hdir.pickle = _RacePickle(lambda: raced.append(drive.serve(cfg, req, tls=tls, realfd=full)))
    try:
        return drive.serve(cfg, req, tls=tls, realfd=full)
    finally:
        hdir.pickle = saved


def crawl(cfg, form, full, ctx=None, max_requests=400, race=False):
    """BFS from '/'. Returns (reached: dict sel->kind, fails: list[Fail], followed: int)."""
    tls, fam = clients.FORMS[form]
    gform = "gophers" if False else "gopher"
    fails = []
    reached = {}
    queue = [(b"/", None)]  # (selector, entry that led here)
    seen = {b"/"}
    nreq = 0
    while queue and nreq < max_requests:
        sel, via = queue.pop(0)
        req = clients.encode(form, sel) if via is None else clients.follow(form, via)
        raced = []
        if race:
            # harness-owned schedule: while this request is writing the directory's cache file, a second client asks for the
            # same listing; what that client is shown is advertised just as well
            r = _serve_with_racer(cfg, req, tls, full, raced)
        else:
            r = drive.serve(cfg, req, tls=tls, realfd=full)
        nreq += 1
        pr = clients.parse_response(form, r.response, expect_menu=True)
        if r.escaped is not None or not pr.ok or pr.problems:
            fails.append(Fail("dead-menu:%s" % fam, "%s: menu link %r (rendered %r) is not served: %r" % (
                form, sel, via and via["raw"], (pr.errmsg or r.response[:100])), {"logs": r.logs[-2:]}))
            continue
        if pr.kind != "menu" and fam not in ("gplus",):
            fails.append(Fail("kind:%s:menu-advertised" % fam, "%s: %r advertised as a menu, served as %s" % (form, sel, pr.kind)))
            continue
        reached[sel] = "menu"
        entries = clients.parse_listing(form, pr)
        for r_ in raced:
            p_ = clients.parse_response(form, r_.response, expect_menu=True)
            if r_.escaped is not None or not p_.ok or p_.problems:
                fails.append(Fail("dead-menu:%s:concurrent" % fam, "%s: a second request for %r, arriving while the first writes the cache file, "
                                  "is not served: %r" % (form, sel, (p_.errmsg or r_.response[:100])), {"logs": r_.logs[-2:]}))
                continue
            if ctx is not None:
                ctx.count("concurrent_listings")
            mine = {(e["target"][1] if e["target"] else None) for e in entries}
            entries = entries + [e for e in clients.parse_listing(form, p_) if (e["target"][1] if e["target"] else None) not in mine]
        # types come from the plain-Gopher view of the same directory
        rg = drive.serve(cfg, clients.encode("gopher", sel), realfd=full)
        types = {}
        for e in clients.parse_gopher_menu(rg.response):
            if e["target"] and e["target"][0] == "local":
                types[e["target"][1]] = e["type"]
        for e in entries:
            if fam in ("gopher", "gplus") and e["kind"] == "link" and e["target"] and e["target"][0] == "url":
                # a URL: item is an item of this server for a Gopher client (it is answered with a redirect page)
                key = b"URL:" + e["target"][1]
                if key in seen:
                    continue
                seen.add(key)
                r2 = drive.serve(cfg, clients.follow(form, e), tls=tls, realfd=full)
                nreq += 1
                p2 = clients.parse_response(form, r2.response, expect_menu=False)
                if ctx is not None:
                    ctx.count("url_links_followed")
                if r2.escaped is not None or not p2.ok or p2.problems:
                    fails.append(Fail("dead-url-link:%s" % fam, "%s: listing of %r advertises the URL link %r but asking this server for it fails: %r" % (
                        form, sel, e["target"][1], (p2.errmsg or r2.response[:100])), {"logs": r2.logs[-2:]}))
                continue
            if e["kind"] != "link" or not e["target"] or e["target"][0] != "local":
                continue
            tsel = e["target"][1]
            typ = types.get(tsel)
            if typ == "1":
                if tsel not in seen:
                    seen.add(tsel)
                    queue.append((tsel, e))
                continue
            if tsel in seen:
                continue
            seen.add(tsel)
            r2 = drive.serve(cfg, clients.follow(form, e), tls=tls, realfd=full)
            nreq += 1
            p2 = clients.parse_response(form, r2.response, expect_menu=False)
            if ctx is not None:
                ctx.count("links_followed")
            if r2.escaped is not None or not p2.ok or p2.problems:
                fails.append(Fail("dead-link:%s" % fam, "%s: listing of %r advertises %r (rendered %r) but following it fails: %r" % (
                    form, sel, tsel, e["raw"], (p2.errmsg or r2.response[:100])), {"logs": r2.logs[-2:]}))
                continue
            if typ is None and p2.kind == "menu":
                # the Gopher family cannot express this name (TAB/CR/LF), so no advertised type is known:
                # whatever is served counts; keep crawling below it
                queue.append((tsel, e))
                continue
            if typ is not None and fam not in ("gopher", "gplus") and p2.kind != "doc":
                fails.append(Fail("kind:%s:doc-advertised" % fam, "%s: %r advertised as a document (type %s), served as %s" % (
                    form, tsel, typ, p2.kind)))
                continue
            reached[tsel] = ("doc", p2.body, p2.mime)
    return reached, fails, nreq


def enumerate_cases(tier, seed):
    """the shipped deployment: the server chroots into the site, its document root is then '/' (needs root; a forked child
    does the real chroot)"""
    yield {"mode": "chrooted"}
    # handler lists an administrator may write that leave some handlers out: what such a server serves as a plain file it
    # announces as a plain file
    yield {"mode": "other-handlers", "handlers": "[UMN.UMNDirHandler, html.HTMLFileTitleHandler, file.FileHandler]"}
    yield {"mode": "other-handlers", "handlers": "[url.HTMLURLHandler, dir.DirHandler, file.FileHandler]"}
    yield {"mode": "other-handlers", "handlers": "[url.HTMLURLHandler, UMN.UMNDirHandler, mbox.MBoxMessageHandler, mbox.MBoxFolderHandler, file.FileHandler]"}


def _check_other_handlers(case, ctx):
    spec = [["readme.txt", "f", "hello\n"], ["index.gophermap", "f", "iA menu for another server\n0Read me\treadme.txt\n"],
            ["page.html", "f", "<html><head><title>A page</title></head></html>\n"], ["box.mbox", "f", sites.mbox_text(["one", "two"])],
            ["arc.zip", "zip", {"members": [["m.txt", "f", "member\n", {}]]}], ["notes.txt.gz", "f", "not really compressed\n"],
            ["run.sh", "f", "#!/bin/sh\necho hi\n", 0o755], ["doc.pyg", "f", "print('x')\n"], ["t.tal", "f", "<p>x</p>\n"],
            ["sub/gophermap", "f", "iThis directory has a map\n0Inner\tinner.txt\n"], ["sub/inner.txt", "f", "inner\n"],
            ["sub2/caf\xe9 \xff.txt", "f", "x\n"]]
    d, root = world.build(spec)
    try:
        cfg = drive.make_config(root, "shipped", **{"handlers.dir.DirHandler::cachetime": "0",
                                                    "handlers.HandlerMultiplexer::handlers": case["handlers"]})
        fails = []
        for form in ("gopher", "http", "gemini", "spartan", "gplus", "wap"):
            reached, ff, nreq = crawl(cfg, form, False, ctx)
            ctx.count("requests", nreq)
            ctx.nontriv((case["handlers"], form))
            if not ff and b"/readme.txt" not in reached:
                ff.append(Fail("unreached:other-handlers", "%s crawl with the handler list %s never reaches /readme.txt" % (form, case["handlers"])))
            fails += ff
        ctx.label("other-handler-lists")
        ctx.sample({"handlers": case["handlers"]}, cls="other-handlers")
        seen, out = set(), []
        for f in fails:
            if f.sig not in seen:
                seen.add(f.sig)
                out.append(f)
        return out
    finally:
        world.rmtree(d)


def _check_chrooted(case, ctx):
    import os
    import pickle
    if os.geteuid() != 0:
        ctx.count("chrooted_skipped_not_root")
        return []
    spec = [["readme.txt", "f", "hello\n"], ["docs/a b.txt", "f", "a\n"], ["docs/sub/deep.txt", "f", "deep\n"],
            ["menu/gophermap", "f", "Welcome\n1Back to the main menu\t/\n0Read me\t/readme.txt\n1Docs\t/docs\n"],
            ["docs/.Links", "f", "Name=Top\nType=1\nPath=/\nHost=+\nPort=+\n"], ["box.mbox", "f", sites.mbox_text(["one"])]]
    d, root = world.build(spec)
    try:
        forms = ["gopher", "http", "gemini", "spartan", "wap"]
        cfg = drive.make_config(root, "shipped", **{"handlers.dir.DirHandler::cachetime": "0"})
        for f in forms:
            crawl(cfg, f, False)  # outside the chroot first: everything the requests import is loaded
        rd, wr = os.pipe()
        pid = os.fork()
        if pid == 0:
            try:
                os.close(rd)
                out = {}
                try:
                    os.chroot(root)
                    os.chdir("/")
                    cfg.set("pygopherd", "root", "/")
                    for f in forms:
                        reached, ff, nreq = crawl(cfg, f, False)
                        out[f] = (sorted(reached), [(x.sig, x.msg) for x in ff], nreq)
                except BaseException as e:  # noqa
                    out["error"] = repr(e)
                blob = pickle.dumps(out)
                while blob:
                    blob = blob[os.write(wr, blob):]
            finally:
                os._exit(0)
        os.close(wr)
        chunks = []
        while True:
            b_ = os.read(rd, 65536)
            if not b_:
                break
            chunks.append(b_)
        os.close(rd)
        os.waitpid(pid, 0)
        out = pickle.loads(b"".join(chunks)) if chunks else {"error": "no result"}
        if "error" in out:
            if "Operation not permitted" in out["error"]:
                ctx.count("chrooted_skipped_not_permitted")
                return []
            raise RuntimeError("chrooted crawl failed: %s" % out["error"])
        ctx.nontriv(("chrooted",))
        ctx.label("chrooted-root-is-slash")
        ctx.sample({"chrooted": True, "forms": forms}, cls="chrooted")
        want = {b"/", b"/readme.txt", b"/docs", b"/docs/a b.txt", b"/docs/sub", b"/docs/sub/deep.txt", b"/menu", b"/box.mbox", b"/box.mbox|/MBOX-MESSAGE/1"}
        fails = []
        for f in forms:
            reached, ff, nreq = out[f]
            ctx.count("requests", nreq)
            for sig, msg in ff:
                fails.append(Fail("chrooted:" + sig, "with the server chrooted into the site (root = '/'): " + msg))
            missing = sorted(want - set(reached) - {b"/"})
            if not ff and missing:
                fails.append(Fail("chrooted:unreached:%s" % clients.FORMS[f][1], "with the server chrooted into the site (root = '/') the %s crawl "
                                                                              "never reaches %r" % (f, missing[0])))
        seen, res = set(), []
        for x in fails:
            if x.sig not in seen:
                seen.add(x.sig)
                res.append(x)
        return res
    finally:
        world.rmtree(d)


def check_case(case, ctx):
    if case.get("mode") == "chrooted":
        return _check_chrooted(case, ctx)
    if case.get("mode") == "other-handlers":
        return _check_other_handlers(case, ctx)
    full = case["full"]
    items = case["site"]
    spec = sites.to_spec(items)
    objs = sites.objects(items)
    d, root = world.build(spec)
    try:
        out = case.get("outlinks", 0)
        taken = {e[0] for e in items}
        if out and not ({"zz out.txt", "zz-outdir"} & taken):
            import os
            od = os.path.join(d, "elsewhere")
            os.makedirs(os.path.join(od, "sub"))
            for rel, content in (("o.txt", "outside file\n"), ("sub/inner.txt", "inner outside\n")):
                with open(os.path.join(od, rel), "w") as fp:
                    fp.write(content)
            objs = list(objs)
            if out & 1:
                os.symlink(os.path.join(od, "o.txt") if case["cache"] else "../elsewhere/o.txt", os.path.join(root, "zz out.txt"))
                objs.append({"sel": "/zz out.txt", "kind": "doc", "what": "txt", "content": "outside file\n"})
            if out & 2:
                os.symlink(os.path.join(od, "sub"), os.path.join(root, "zz-outdir"))
                objs.append({"sel": "/zz-outdir", "kind": "menu", "what": "dir", "content": None})
                objs.append({"sel": "/zz-outdir/inner.txt", "kind": "doc", "what": "txt", "content": "inner outside\n"})
            ctx.label("links-leaving-the-root")
        cfg = drive.make_config(root, "full" if full else "shipped",
                                **{"handlers.dir.DirHandler::cachetime": "180" if case["cache"] else "0"})
        forms = CRAWL_FORMS[case["forms"]]
        if not case["gopher_ok"]:
            forms = [f for f in forms if f in URL_ONLY] or ["http"]
        vprob = case["vsep"] and _has_vsep_problem(items)
        want = {world.b(o["sel"]): o for o in objs}
        fails = []
        if case.get("long"):
            ctx.label("long-names", "longest-selector:%s" % ("<=1024" if max([len(o["sel"]) for o in objs] + [0]) <= 1024 else ">1024"))
        ctx.label("full" if full else "shipped", "link-file-blocks:%s" % ("0" if not case.get("linkfiles") else "1+"), "cache:%s" % case["cache"], "gopher_ok:%s" % case["gopher_ok"],
                  "vsep-flavour" if case["vsep"] else "plain-flavour")
        for form in forms:
            fam = clients.FORMS[form][1]
            reached, ff, nreq = crawl(cfg, form, full, ctx, race=bool(case["cache"]) and len(items) % 2 == 0)
            ctx.count("requests", nreq)
            hard = [s for s in reached if not gen.is_tame(world.u(s).replace("/", "")) or b"|" in s or b".zip/" in s]
            if hard:
                ctx.nontriv((ctx._hash(), form))
                ctx.label("nontrivial-crawl:" + fam)
            # reached set == described set
            got = set(reached) - {b"/"}
            missing = sorted(set(want) - got)
            extra = sorted(got - set(want))
            if not ff and not vprob:
                if missing:
                    ff.append(Fail("unreached:%s:%s" % (fam, want[missing[0]]["what"].split(":")[0]),
                                   "%s crawl never reaches %r (%s) although it exists" % (form, missing[0], want[missing[0]]["what"])))
                if extra:
                    ff.append(Fail("phantom:%s" % fam, "%s crawl reaches %r which the site does not contain" % (form, extra[0])))
                # bytes of plain documents
                for s, v in reached.items():
                    o = want.get(s)
                    if o and v != "menu" and o["what"] in ("txt", "bin", "html", "zip:txt", "zip:bin", "zip:html") \
                            and not (fam == "wap" and v[2] == b"text/vnd.wap.wml"):
                        if v[1] != world.b(o["content"]):
                            ff.append(Fail("content:%s" % fam, "%s: document %r arrives with different bytes" % (form, s)))
                            break
            fails += ff
        ctx.sample({"site": items, "forms": forms}, cls="%s%s" % (full, case["gopher_ok"]))
        seen, out = set(), []
        for f in fails:
            if f.sig not in seen:
                seen.add(f.sig)
                out.append(f)
        return out
    finally:
        world.rmtree(d)
