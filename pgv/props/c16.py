"""C16 - ZIP archives are transparent (differential: archive vs. the same tree extracted on disk)."""
from __future__ import annotations

import os
import re

from hypothesis import strategies as st

from pgv import clients, drive, gen, monitor, sites, world
from pgv.core import Fail

ID = "C16"
LEVEL = "exploration"
RULE = ("A generated tree (depth <= 3; text, HTML, binary, gzip and TAL files; dot-files; sidecar abstracts; .names/.cap "
        "metadata and gophermaps whose absolute selectors carry each twin's own prefix; symlink members: relative, "
        "absolute-in-archive, to directories, chained, dangling, cyclic, climbing out) is written as /Tarch.zip (generated "
        "member order, explicit or implicit directory members, UTF-8-flagged or raw CP437 names) and as the directory "
        "/Tarch. Every object, every directory and some missing selectors are requested in both through four protocol "
        "forms; after replacing the prefix and removing timestamp lines the replies must be byte-identical. A second "
        "mode stores a mailbox, a Maildir, an executable script and a .pyg as members: they must be served as their own "
        "bytes, identically for two different working directories, with no process launch and no open outside the "
        "archive (audit monitor). Non-trivial: tree with a symlink member, metadata, a non-ASCII name or depth >= 2; "
        "distinct by case hash.")
ASSUMPTIONS = [
    "only trees are generated (no name that is both a file and a directory prefix, no '..' or absolute member names, no "
    "symlink with an empty target)",
    "handlers that need a real file (mailboxes, scripts, PYG) are not part of the twin comparison: inside an archive they "
    "are plain files by design",
    "timestamps (Last-Modified, Mod-Date) are removed before comparing; the archive's own display name is rewritten",
]

FORMS = ["gopher", "gdollar", "http", "gemini", "gplus", "wap", "spartan"]
seg = st.one_of(st.text("abcdefghij0123", min_size=1, max_size=4), st.text("abcdefghij0123", min_size=1, max_size=4),
                gen.names(toplevel=False, full=True).filter(lambda n: "|" not in n and "?" not in n),
                # member names that repeat the archive's own name
                st.sampled_from(["Tarch.zip.txt", "xTarch.zip", "Tarch.zipx", "Tarch.zip.d"]))  # (not the exact names: a climbing link would hit the twin itself)


@st.composite
def _tree(draw):
    """flat list of [path, kind, payload]; kinds f, d (explicit), l"""
    ndirs = draw(st.integers(0, 4))
    dirs = [""]
    for _ in range(ndirs):
        parent = draw(st.sampled_from(dirs))
        if parent.count("/") >= 2:
            continue
        name = draw(seg)
        p = (parent + "/" + name) if parent else name
        if p not in dirs:
            dirs.append(p)
    files = {}
    for _ in range(draw(st.integers(1, 6))):
        parent = draw(st.sampled_from(dirs))
        kind = draw(st.sampled_from(["txt", "txt", "html", "bin", "gz", "dot", "tal"]))
        b = draw(seg)
        name = {"txt": b + draw(st.sampled_from([".txt", "", ".c"])), "html": b.split(".")[0] + ".html", "bin": b.split(".")[0] + ".gif",
                "gz": b.split(".")[0] + ".txt.gz", "dot": "." + b.split(".")[0], "tal": b.split(".")[0] + ".html.tal"}[kind]
        p = (parent + "/" + name) if parent else name
        if p in dirs or p in files or not (gen.servable_name(name, False, True) or kind == "dot"):
            continue
        if kind == "html":
            content = "<html><head><title>T %s</title></head></html>\n" % b[:3].replace("<", "")
        elif kind == "gz":
            content = sites.gz_text(draw(gen.text_content) or "z\n")
        elif kind == "tal":
            content = '<html><body><p tal:content="string:expanded">x</p></body></html>\n'
        elif kind == "bin":
            content = draw(gen.binary_content)
        elif kind == "dot":
            content = "# just a dot file\n"
        else:
            content = draw(gen.text_content)
        files[p] = content
    fl = sorted(files)
    # metadata
    meta = {}
    for d in draw(st.lists(st.sampled_from(dirs), max_size=2, unique=True)):
        kids = [f for f in fl if os.path.dirname(f) == d and not os.path.basename(f).startswith(".")]
        what = draw(st.sampled_from(["names", "map", "abstract", "cap", "dirabstract"]))
        pre = (d + "/") if d else ""
        if what == "names" and kids:
            k = os.path.basename(kids[0])
            meta[pre + ".names"] = ("Path=./%s\nName=Renamed entry\nNumb=1\n\nName=Abs link\nType=0\nPath=@PREFIX@/%s\nHost=+\nPort=+\n"
                                    % (k, kids[-1]))
        elif what == "map" and kids and d:
            meta[pre + "gophermap"] = "Info line\n0Rel\t%s\n0Abs\t@PREFIX@/%s\n" % (os.path.basename(kids[0]), kids[-1])
        elif what == "abstract" and kids:
            meta[kids[0] + ".abstract"] = "about it\nsecond line\n"
        elif what == "cap" and kids:
            meta[pre + ".cap/" + os.path.basename(kids[0])] = "Name=Capped\nNumb=2\n"
        elif what == "dirabstract":
            # (d == '' is the root of the archive: its sidecars describe the archive's own menu)
            meta[pre + ".abstract"] = "about this directory\n"
            if draw(st.booleans()):
                meta[pre + ".keywords"] = "key, words\n"
        if draw(st.integers(0, 5)) == 0 and not any(k.startswith(pre + ".cap/") for k in meta):
            # '.cap' as a plain file (not the directory of per-file overrides)
            meta[pre + ".cap"] = "not a directory\n"
    meta = {k: v for k, v in meta.items() if k not in files and k not in dirs}
    if meta and draw(st.integers(0, 3)) == 0:
        # a byte-order mark in front of a metadata file (written by some editors): whatever the server makes of it, it must
        # make the same of it in the archive
        k = draw(st.sampled_from(sorted(meta)))
        meta[k] = "\xef\xbb\xbf" + meta[k]
    # symlinks
    links = {}
    targets = fl + [d for d in dirs if d]
    for i in range(draw(st.integers(0, 3))):
        parent = draw(st.sampled_from(dirs))
        name = "ln%d" % i
        p = (parent + "/" + name) if parent else name
        style = draw(st.sampled_from(["rel", "abs", "chain", "dangling", "cyclic", "climb", "rel", "climbhit", "throughfile",
                                      "throughlink", "throughlink"]))
        if style in ("rel", "abs") and targets:
            t = draw(st.sampled_from(targets))
            links[p] = (os.path.relpath(t, parent or ".") if style == "rel" else "/" + t, style)
        elif style == "chain" and links:
            t = draw(st.sampled_from(sorted(links)))
            links[p] = (os.path.relpath(t, parent or "."), style)
        elif style == "throughlink":
            if not any(ls in ("rel", "abs") and os.path.normpath(os.path.join(os.path.dirname(lp), lt) if not lt.startswith("/") else lt[1:]) in dirs
                       for lp, (lt, ls) in links.items()):
                # no link to a directory yet: make one (to a directory that holds a file)
                withfiles = sorted({os.path.dirname(f) for f in fl if os.path.dirname(f)})
                if withfiles:
                    d0 = draw(st.sampled_from(withfiles))
                    links["lnd%d" % i] = (d0, "rel")
            # the target path runs THROUGH another symlink member (a link to a directory), whatever the member order
            dl = [(lp, lt) for lp, (lt, ls) in links.items() if ls in ("rel", "abs")
                  and os.path.normpath(os.path.join(os.path.dirname(lp), lt) if not lt.startswith("/") else lt[1:]) in dirs]
            if dl:
                lp, lt = draw(st.sampled_from(dl))
                d_ = os.path.normpath(os.path.join(os.path.dirname(lp), lt) if not lt.startswith("/") else lt[1:])
                inside = [f for f in fl if os.path.dirname(f) == d_]
                if inside:
                    f = draw(st.sampled_from(inside))
                    links[p] = (os.path.relpath(lp, parent or ".") + "/" + os.path.basename(f), "throughlink")
        elif style == "throughfile" and fl:
            # dangling: the path continues below a regular file
            t = draw(st.sampled_from(fl))
            links[p] = (os.path.relpath(t, parent or ".") + "/" + draw(st.sampled_from(["x", "y"])), "dangling")
        elif style == "dangling":
            links[p] = ("no-such-target", style)
        elif style == "cyclic":
            links[p] = (name, style)
        elif style == "climbhit" and targets:
            # climbs above the archive root; clamped at the root the path would name an existing member
            t = draw(st.sampled_from(targets))
            links[p] = ("../" * (parent.count("/") + (2 if parent else 1) + draw(st.integers(0, 1))) + t, "climb")
        elif style == "climb":
            links[p] = ("../" * (parent.count("/") + 2 if parent else 1) + "outside.txt", style)
    order = list(draw(st.permutations(sorted(list(files) + list(meta) + list(links)))))
    if draw(st.integers(0, 3)) == 0 and "old-docs" not in dirs and not any(k.startswith(("a-stale", "b-readme", "old")) for k in list(files) + list(links)):
        # names that are PREFIXES of one another: a link into a directory that does not exist ('old/...'), stored before a
        # link into a directory whose name begins with that name ('old-docs/...'); likewise for a metadata look-up
        dirs = list(dirs) + ["old-docs", "site", "site/gophermaps"]
        files["old-docs/readme.txt"] = "read me\n"
        files["site/gophermaps/x.txt"] = "x\n"
        meta["site/gophermaps/.abstract"] = "about the gophermaps directory\n"
        links["a-stale"] = ("old/gone.txt", "dangling")
        links["b-readme"] = ("old-docs/readme.txt", "rel")
        order = ["a-stale", "b-readme"] + order + ["old-docs/readme.txt", "site/gophermaps/x.txt", "site/gophermaps/.abstract"]
    # DOS time stamps that no calendar knows (written by careless tools; the ZIP format does not forbid them) and extremes
    dates = {}
    if (files or meta or links) and draw(st.integers(0, 2)) == 0:
        for p in draw(st.lists(st.sampled_from(sorted(list(files) + list(meta) + list(links))), max_size=2, unique=True)):
            dates[p] = draw(st.sampled_from([[1980, 0, 0, 0, 0, 0], [1980, 1, 1, 0, 0, 0], [2107, 12, 31, 23, 59, 58], [2001, 2, 30, 12, 0, 0],
                                             [2001, 9, 9, 1, 46, 62], [1999, 13, 1, 0, 0, 0], [2001, 9, 9, 25, 61, 0]]))
    return {"dirs": [d for d in dirs if d], "files": files, "meta": meta, "links": {k: list(v) for k, v in links.items()},
            "order": list(order), "dates": dates, "explicit_dirs": draw(st.sampled_from(["none", "all", "some"])),
            "utf8": draw(st.booleans()), "dirs_first": draw(st.booleans()),
            # what the archiver recorded as the files' attributes (Info-ZIP style, permission bits only, nothing, MS-DOS)
            "attr": draw(st.sampled_from([None, None, "noftype", "zero", "dos"]))}


@st.composite
def _case(draw):
    mode = draw(st.sampled_from(["twin", "twin", "twin", "realonly"]))
    if mode == "realonly":
        return {"mode": "realonly", "form": draw(st.sampled_from(["gopher", "http", "gemini", "gplus"])),
                "member": draw(st.sampled_from(["box.mbox", "md", "run.sh", "m.pyg", "sub/box.mbox", "box.mbox|/MBOX-MESSAGE/1",
                                                "md|/MAILDIR-MESSAGE/1", "run.sh?arg", "m.pyg?x"])),
                "cwd": draw(st.sampled_from(["cwdA", "cwdB"]))}
    c = {"mode": "twin", "tree": draw(_tree()), "forms": draw(st.lists(st.sampled_from(FORMS), min_size=2, max_size=3, unique=True)),
         # the administrator's pattern for archives: the shipped one, or one that says the same about whole selectors
         # (which begin with a slash): anchored at the start, or spelling out the last component
         "pattern": draw(st.sampled_from([None, None, r"(?s)^/.*\.zip$", r"/[^/]*\.zip$"]))}
    if draw(st.integers(0, 3)) == 0:
        # the archive is then replaced by another revision that keeps its modification time (cp -p, rsync -t, a restore)
        c["tree2"] = draw(_tree())
    return c


def strategy(tier):
    return _case()


def examples(tier):
    return 1600 if tier == "quick" else 30000


def _is_utf8(s):
    try:
        world.b(s).decode("utf-8")
        return True
    except UnicodeDecodeError:
        return False


def _zip_dirs(tree):
    """directories that exist in the archive: explicit members and every prefix of a member path"""
    explicit = []
    if tree["explicit_dirs"] != "none":
        explicit = tree["dirs"] if tree["explicit_dirs"] == "all" else tree["dirs"][::2]
    paths = list(tree["files"]) + list(tree["meta"]) + list(tree["links"]) + [d + "/" for d in explicit]
    out = set()
    for p in paths:
        parts = p.rstrip("/").split("/") if p.endswith("/") else p.split("/")[:-1]
        for i in range(1, len(parts) + 1):
            out.add("/".join(parts[:i]))
    return sorted(out)


def _build_twins(tree, root):
    T = "Tarch"
    # on-disk twin
    spec = [[T, "d", None]]
    for d in _zip_dirs(tree):
        spec.append([T + "/" + d, "d", None])
    for p, c in tree["files"].items():
        spec.append([T + "/" + p, "f", c])
    for p, c in tree["meta"].items():
        spec.append([T + "/" + p, "f", c.replace("@PREFIX@", "/" + T)])
    for p, (t, style) in tree["links"].items():
        if t.startswith("/"):
            # absolute inside the archive = relative to the archive root
            t = os.path.relpath(t[1:], os.path.dirname(p) or ".")
        spec.append([T + "/" + p, "l", t])
    # archive
    members = []
    if tree["explicit_dirs"] != "none":
        ds = tree["dirs"] if tree["explicit_dirs"] == "all" else tree["dirs"][::2]
        for d in ds:
            members.append([d, "d", None, {"utf8": tree["utf8"] and _is_utf8(d)}])
    body = []
    for p in tree["order"]:
        fl = {"utf8": tree["utf8"] and _is_utf8(p)}
        if p in tree.get("dates", {}):
            fl["date"] = tree["dates"][p]
        if p not in tree["links"] and tree.get("attr"):
            fl["attr"] = tree["attr"]
        if p in tree["files"]:
            body.append([p, "f", tree["files"][p], fl])
        elif p in tree["meta"]:
            body.append([p, "f", tree["meta"][p].replace("@PREFIX@", "/" + T + ".zip"), fl])
        else:
            body.append([p, "l", tree["links"][p][0], fl])
    members = (members + body) if tree["dirs_first"] else (body + members)
    spec.append([T + ".zip", "zip", {"members": members}])
    world.materialise(spec, root)


_TS = [re.compile(rb"Last-Modified: [^\r\n]*\r\n"), re.compile(rb" Mod-Date: [^\r\n]*\r\n")]


def _norm(resp, zipside):
    resp = resp.replace(b"Tarch.zip", b"Tarch")  # on both sides: file contents may contain the string too
    for rx in _TS:
        resp = rx.sub(b"", resp)
    return resp


def _check_twin(case, ctx):
    import shutil
    base = world.fresh_dir("c16")
    root = os.path.join(base, "root")
    os.mkdir(root)
    try:
        over = {"handlers.dir.DirHandler::cachetime": "0"}
        if case.get("pattern"):
            over["handlers.ZIP.ZIPHandler::pattern"] = case["pattern"]
            ctx.label("archive-pattern-on-whole-selector")
        cfg = drive.make_config(root, "full", **over)
        _build_twins(case["tree"], root)
        out = _compare(case["tree"], case, cfg, ctx, "")
        if not out and case.get("tree2"):
            # second revision under the same name and with the same mtime; whatever index cache the server keeps stays
            shutil.rmtree(os.path.join(root, "Tarch"))
            os.unlink(os.path.join(root, "Tarch.zip"))
            _build_twins(case["tree2"], root)
            ctx.label("archive-replaced-keeping-mtime")
            out = _compare(case["tree2"], case, cfg, ctx, "after-replacement:")
        return out
    finally:
        world.rmtree(base)


def _compare(tree, case, cfg, ctx, pre):
    # (metadata files that name absolute selectors differ in length between the twins by construction)
    sels = [""] + _zip_dirs(tree) + sorted(tree["files"]) + sorted(tree["links"]) + \
        sorted(m for m, c in tree["meta"].items() if "@PREFIX@" not in c)
    sels += [s + "/nope" for s in ([""] + tree["dirs"])[:2]] + [s + "/x" for s in sorted(tree["links"])[:2]]
    # selectors that continue below a regular member, with and without virtual arguments
    for f in sorted(tree["files"])[:2]:
        sels += [f + "/x", f + "/x|foo", f + "/y?z", f + "|/MBOX-MESSAGE/1"]
    nt = bool(tree["links"]) or bool(tree["meta"]) or any(not p.isascii() for p in tree["files"]) or \
        any(d.count("/") >= 1 for d in tree["dirs"])
    if nt:
        ctx.nontriv()
    ctx.label("twin", "links:%d" % len(tree["links"]), "meta:%d" % len(tree["meta"]), "explicit-dirs:" + tree["explicit_dirs"],
              "utf8flag:%s" % tree["utf8"])
    for st_ in {v[1] for v in tree["links"].values()}:
        ctx.label("link:" + st_)
    ctx.sample(cls="twin%d%d" % (min(len(tree["links"]), 1), min(len(tree["meta"]), 1)))
    fails = []
    for form in case["forms"]:
        tls, fam = clients.FORMS[form]
        for s in sels:
            if fam in ("gopher", "gdollar", "gplus") and re.search(r"[\t\r\n]", s):
                continue
            ra = drive.serve(cfg, clients.encode(form, world.b("/Tarch.zip" + ("/" + s if s else ""))), tls=tls, realfd=True)
            rb = drive.serve(cfg, clients.encode(form, world.b("/Tarch" + ("/" + s if s else ""))), tls=tls, realfd=True)
            ctx.count("request_pairs")
            a, b_ = _norm(ra.response, True), _norm(rb.response, False)
            if ra.escaped is not None or [c for c in ra.exception_classes() if c != "FileNotFound"]:
                fails.append(Fail("zip-internal-error:%s" % (ra.handled_signatures() or ["escaped"])[-1],
                                  "%s /Tarch.zip/%s: %r" % (form, s, ra.logs[-1:])))
                continue
            if a != b_:
                what = _what(s, tree)
                pa, pb = clients.parse_response(form, ra.response), clients.parse_response(form, rb.response)
                kind = "found-vs-notfound" if pa.ok != pb.ok else ("listing" if pb.kind in ("menu", "info") or fam in ("gdollar",) else "document")
                fails.append(Fail("twin-differs:%s:%s" % (what, kind),
                                  "%s: /Tarch.zip/%s and /Tarch/%s differ (%s)" % (form, s, s, what),
                                  {"zip": world.u(a[:500]), "disk": world.u(b_[:500])}))
                if len(fails) >= 3:
                    break
        if len(fails) >= 3:
            break
    seen, out = set(), []
    for f in fails:
        if f.sig not in seen:
            seen.add(f.sig)
            f.sig = pre + f.sig
            out.append(f)
    return out


def _what(s, tree):
    if s in tree["links"]:
        return "symlink-" + tree["links"][s][1]
    for l, (t, style) in tree["links"].items():
        if s.startswith(l + "/"):
            return "below-symlink-" + style
    if s == "" or s in tree["dirs"]:
        if any(os.path.dirname(l) == s for l in tree["links"]):
            return "dir-with-symlink"
        if any(os.path.dirname(m) == s or os.path.dirname(os.path.dirname(m)) == s for m in tree["meta"]):
            return "dir-with-metadata"
        return "dir"
    if s in tree["meta"]:
        return "metadata-file"
    if s.endswith("/nope") or s.endswith("/x"):
        return "missing"
    return "file-" + (s.rsplit(".", 1)[-1] if "." in os.path.basename(s) else "noext")


# ------------------------------------------------------------------------------------------------ real-file-only handlers

from pgv.props.c01 import PYG  # noqa: E402


def _check_realonly(case, ctx):
    base = world.fresh_dir("c16r")
    root = os.path.join(base, "root")
    os.mkdir(root)
    try:
        mb = sites.mbox_text(["inside the archive"])
        members = [["box.mbox", "f", mb, {}], ["sub/box.mbox", "f", mb, {}], ["run.sh", "f", sites.SCRIPT, {"mode": 0o755}],
                   ["m.pyg", "f", PYG, {"mode": 0o755}], ["md/cur/a", "f", "From: a@b\nSubject: zip md\n\nx\n", {}],
                   ["md/new/b", "f", "From: a@b\nSubject: zip md2\n\nx\n", {}], ["md/tmp/c", "f", "", {}]]
        world.materialise([["arch.zip", "zip", {"members": members}]], root)
        # two working directories holding different look-alikes of the member paths
        for cw, tag in (("cwdA", "AAA"), ("cwdB", "BBB")):
            world.materialise([[cw + "/box.mbox", "f", sites.mbox_text(["outside " + tag])],
                               [cw + "/sub/box.mbox", "f", sites.mbox_text(["outside " + tag])],
                               [cw + "/run.sh", "f", "#!/bin/sh\necho outside %s\n" % tag, 0o755],
                               [cw + "/m.pyg", "f", PYG.replace("pyg output", "outside " + tag), 0o755]] +
                              sites.maildir_spec(cw + "/md", ["outside " + tag]), base)
        cfg = drive.make_config(root, "full", **{"handlers.dir.DirHandler::cachetime": "0"})
        form = case["form"]
        tls, fam = clients.FORMS[form]
        member = case["member"]
        req = clients.encode(form, world.b("/arch.zip/" + member))
        outs = {}
        bad_events = []
        import pgv.props.c01 as c01
        c01._warmup()
        for cw in ("cwdA", "cwdB"):
            old = os.getcwd()
            os.chdir(os.path.join(base, cw))
            try:
                with monitor.armed_for() as evs:
                    r = drive.serve(cfg, req, tls=tls, realfd=True)
                evs = list(evs)
            finally:
                os.chdir(old)
            outs[cw] = r
            bad_events += monitor.outside_events(evs, root, ("zcat", "bzcat"))
            bad_events += [(e, p, x) for e, p, x in evs if e in monitor._PROC_EVENTS]
        ctx.label("realonly", "member:" + member.split("|")[0].split("?")[0])
        ctx.nontriv()
        ctx.sample(cls="realonly" + member)
        fails = []
        ra, rb = outs["cwdA"], outs["cwdB"]
        if ra.response != rb.response:
            fails.append(Fail("realonly:cwd-dependence:" + member.split("/")[-1].split("|")[0].split("?")[0],
                              "reply for archive member %r depends on the working directory" % member,
                              {"cwdA": world.u(ra.response[:300]), "cwdB": world.u(rb.response[:300])}))
        if bad_events:
            fails.append(Fail("realonly:outside-or-exec:%s" % bad_events[0][0], "request for archive member %r: %r" % (member, bad_events[:2])))
        if ra.escaped is not None or [c for c in ra.exception_classes() if c != "FileNotFound"]:
            fails.append(Fail("realonly:internal-error", "request for archive member %r: %r" % (member, ra.logs[-1:])))
        pr = clients.parse_response(form, ra.response, expect_menu=False)
        plain = {"box.mbox": mb, "sub/box.mbox": mb, "run.sh": sites.SCRIPT, "m.pyg": PYG}
        if member in plain and fam in ("gopher", "http", "gemini") and not fails:
            if not pr.ok or pr.body != world.b(plain[member]):
                fails.append(Fail("realonly:not-own-bytes:" + member.split("/")[-1], "archive member %r is not served as its own bytes: %r" % (member, ra.response[:120])))
        if ("|" in member or "?" in member) and not fails and pr.ok:
            fails.append(Fail("realonly:virtual-on-member", "virtual selector %r on an archive member was served: %r" % (member, ra.response[:120])))
        return fails
    finally:
        world.rmtree(base)


def check_case(case, ctx):
    if case["mode"] == "twin":
        return _check_twin(case, ctx)
    return _check_realonly(case, ctx)
