"""C20 - A failing client connection is contained in its own handler."""
from __future__ import annotations

import errno
import gc
import os
import socket

from hypothesis import strategies as st

from pgv import clients, drive, sites, world
from pgv.core import Fail

ID = "C20"
LEVEL = "fault_enumeration"
EXHAUSTIVE = True
RULE = ("For each response kind (document of several copy blocks, menu, error page, Gopher+ item/directory info, ZIP "
        "member, mailbox folder and message, HTML file) x protocol form x error class (BrokenPipeError(EPIPE), "
        "ConnectionResetError(ECONNRESET), socket.timeout('timed out') with a single argument), the number n of "
        "write calls of a fault-free run is measured and then EVERY index 0..n is made the first failing call "
        "(the connection stays dead afterwards; in a second pass only that single call fails). Enumerated completely for the fixed site (exhaustive: true); in "
        "addition Hypothesis draws document sizes / menu lengths and re-runs the enumeration on them. Oracles: "
        "nothing escapes the connection handler; some log record carries client address, protocol class and the "
        "injected error's class; no record names any other exception class (FileNotFound allowed for the error-page "
        "kind); the set of open file descriptors after the request (after gc.collect()) equals the set before. "
        "Four enumerated 'stalled client' cases run a real server (both socketserver classes, socket timeout 2 s, log to a "
        "captured stream): a client asks for an 8 MB document and stops reading without closing; within 20 s the failure must "
        "be logged with the client's address, the handler thread / child must be gone, the document closed and the server "
        "still answering. "
        "Non-trivial: failure index strictly inside the response (0 < k < n); distinct = (kind, form, error, k, size).")
ASSUMPTIONS = [
    "a dead connection is modelled as a client file object whose k-th and all later write()/flush() calls raise the "
    "error instance; responses produced with the help of a child process (scripts, decompressors) are exercised over a real "
    "TCP connection whose client closes or resets after 0 / 70000 of 3000000 bytes (mode 'realfd', 32 cases)",
    "implicit closing by reference counting counts as closed: only descriptors that survive the request are reported",
]

ERRORS = ["EPIPE", "ECONNRESET", "TIMEOUT"]
KINDS = ["doc", "menu", "error", "info", "dirinfo", "zipmember", "mboxfolder", "mboxmsg", "html", "maildirmsg", "gzdoc", "script",
         "pctdoc", "pctmenu", "pcterror", "ioerror"]
FORMS = ["gopher", "gophers", "gplus", "http", "https", "head", "wap", "gemini", "spartan"]


def _err(name):
    if name == "EPIPE":
        return BrokenPipeError(errno.EPIPE, "Broken pipe")
    if name == "ECONNRESET":
        return ConnectionResetError(errno.ECONNRESET, "Connection reset by peer")
    return socket.timeout("timed out")


class FaultyWFile:
    """Counts write/flush calls; from call index k on, every call raises `exc`."""

    def __init__(self, k, exc, oneshot=False):
        self.k = k
        self.exc = exc
        self.oneshot = oneshot
        self.ops = 0
        self.closed = False
        self.data = bytearray()

    def _op(self):
        i = self.ops
        self.ops += 1
        if self.k is not None and (i == self.k if self.oneshot else i >= self.k):
            raise _err(self.exc)  # a fresh instance each time, as a socket would

    def write(self, b):
        self._op()
        self.data += bytes(b)
        return len(b)

    def flush(self):
        # socketserver's unbuffered _SocketWriter inherits a no-op flush(): it cannot fail
        pass

    def writable(self):
        return True

    def close(self):
        self.closed = True

    def getvalue(self):
        return bytes(self.data)

    def fileno(self):
        raise OSError("no descriptor")


def _spec(size, nmenu):
    spec = [["big.bin", "f", world.u((bytes(range(256)) * (size // 256 + 1))[:size])],
            ["page.html", "f", "<html><head><title>A Title</title></head><body>b</body></html>\n"],
            ["box.mbox", "f", sites.mbox_text(["first", "second"])]]
    spec += sites.maildir_spec("md", ["in maildir"])
    for i in range(nmenu):
        spec.append(["menu/entry%02d.txt" % i, "f", "e\n"])
    spec.append(["menu/.abstract", "f", "a menu\n"])
    spec.append(["arch.zip", "zip", {"members": [["m.txt", "f", "member text\n" * 400, {}]]}])
    # produced with the help of a child process whose output the server relays (several 64 KiB copy blocks)
    spec.append(["big.txt.gz", "f", sites.gz_text("0123456789abcdef" * 64 * 200)])
    spec.append(["out.sh", "f", "#!/bin/sh\nhead -c 200000 /dev/zero | tr '\\0' 'y'\necho\n", 0o755])
    # names that are format-string / template syntax (a selector ends up in log lines and error replies)
    spec.append(["100% %s {0}.txt", "f", "percent\n" * 80])
    spec.append(["rate%d/in.txt", "f", "e\n"])
    # a document whose reading fails on the SERVER's side (EIO): the reply is an error page built from that error - and the
    # client may fail while that page is being written
    spec.append(["mem.bin", "l", "/proc/self/mem"])
    return spec


def _request(kind, form):
    fam = clients.FORMS[form][1]
    if kind == "unclaimed":
        return clients.encode(form, b"/big.bin")
    sel = {"doc": b"/big.bin", "menu": b"/menu", "error": b"/missing", "info": b"/big.bin", "dirinfo": b"/menu",
           "zipmember": b"/arch.zip/m.txt", "mboxfolder": b"/box.mbox", "mboxmsg": b"/box.mbox|/MBOX-MESSAGE/2",
           "html": b"/page.html", "maildirmsg": b"/md|/MAILDIR-MESSAGE/1", "gzdoc": b"/big.txt.gz", "script": b"/out.sh",
           "pctdoc": b"/100% %s {0}.txt", "pctmenu": b"/rate%d", "pcterror": b"/missing 5% %(x)s", "ioerror": b"/mem.bin"}[kind]
    if kind == "info":
        if fam != "gplus":
            return None
        return clients.encode("gbang", sel)
    if kind == "dirinfo":
        if fam != "gplus":
            return None
        return clients.encode("gdollar", sel)
    return clients.encode(form, sel)


def enumerate_cases(tier, seed):
    # responses produced with the help of a child process (decompressor, script), over a real TCP connection whose client
    # goes away after reading `after` bytes
    for kind in ("gzdoc", "script"):
        for form in ("gopher", "gplus", "http", "spartan"):
            for how in ("close", "reset"):
                for after in (0, 70000):
                    yield {"mode": "realfd", "kind": kind, "form": form, "how": how, "after": after}
    # a real server with a socket timeout and a client that stops reading a large document without closing the connection
    for st_ in ("ThreadingTCPServer", "ForkingTCPServer"):
        for form in ("gopher", "http", "gophers", "https"):
            yield {"mode": "stalled", "servertype": st_, "form": form}
        for form in ("gophers", "https", "gopher"):
            yield {"mode": "stalled", "servertype": st_, "form": form, "how": "reset"}
    # a protocol list without a catch-all and a request nobody claims: whatever the server answers then (today: nothing)
    for form in ("gopher", "http", "gophers"):
        for err in ERRORS:
            yield {"kind": "unclaimed", "form": form, "err": err, "size": 100, "nmenu": 1, "oneshot": False}
    for kind in KINDS:
        for form in FORMS:
            for err in ERRORS:
                yield {"kind": kind, "form": form, "err": err, "size": 10000, "nmenu": 6, "oneshot": False}
                if kind in ("doc", "menu", "error", "zipmember", "mboxmsg"):
                    # a single failing write (a send timeout that does not kill the connection)
                    yield {"kind": kind, "form": form, "err": err, "size": 10000, "nmenu": 6, "oneshot": True}


@st.composite
def _gen(draw):
    return {"kind": draw(st.sampled_from(["doc", "menu", "dirinfo", "doc", "menu"])), "form": draw(st.sampled_from(FORMS)),
            "err": draw(st.sampled_from(ERRORS)),
            "size": draw(st.one_of(st.sampled_from([0, 1, 4095, 4096, 4097, 8192, 20000]), st.integers(0, 30000))),
            "nmenu": draw(st.integers(0, 20)), "oneshot": draw(st.booleans())}


def strategy(tier):
    return _gen()


def examples(tier):
    return 200 if tier == "quick" else 4000


def _fds():
    out = {}
    for n in os.listdir("/proc/self/fd"):
        try:
            out[int(n)] = os.readlink("/proc/self/fd/" + n)
        except OSError:
            pass
    return out


class _SockW:
    """the server side of a real TCP connection, as socketserver's unbuffered writer presents it"""

    def __init__(self, sock):
        self.sock = sock
        self.closed = False

    def write(self, b):
        self.sock.sendall(b)
        return len(b)

    def flush(self):
        pass

    def writable(self):
        return True

    def fileno(self):
        return self.sock.fileno()

    def close(self):
        self.closed = True

    def getvalue(self):
        return b""


def _check_realfd(case, ctx):
    import struct
    import threading
    kind, form = case["kind"], case["form"]
    big = "0123456789abcdef" * 64 * 3000  # 3 MB: far more than the socket buffers hold
    if kind == "gzdoc":
        spec = [["big.txt.gz", "f", sites.gz_text(big)]]
        sel = b"/big.txt.gz"
    else:
        spec = [["big.sh", "f", "#!/bin/sh\nhead -c 3000000 /dev/zero | tr '\\0' 'x'\necho\n", 0o755]]
        sel = b"/big.sh"
    base, root = world.build(spec)
    lst = socket.socket()
    conns = []
    try:
        cfg = drive.make_config(root, "full", **{"handlers.dir.DirHandler::cachetime": "0"})
        req = clients.encode(form, sel)
        lst.bind(("127.0.0.1", 0))
        lst.listen(1)
        cli = socket.create_connection(lst.getsockname())
        srv, _ = lst.accept()
        conns += [cli, srv]
        srv.settimeout(20)

        def client():
            try:
                got = 0
                while got < case["after"]:
                    b = cli.recv(min(65536, case["after"] - got))
                    if not b:
                        break
                    got += len(b)
                if case["how"] == "reset":
                    cli.setsockopt(socket.SOL_SOCKET, socket.SO_LINGER, struct.pack("ii", 1, 0))
                cli.close()
            except OSError:
                pass
        gc.collect()
        before = _fds()
        t = threading.Thread(target=client, daemon=True)
        t.start()
        if case["after"] == 0:
            t.join(5)  # the client is gone before the first byte is written
        r = drive.serve(cfg, req, tls=False, wfile=_SockW(srv))
        t.join(10)
        escaped_sig = drive.exc_signature(r.escaped) if r.escaped is not None else None
        escaped_repr = repr(r.escaped)
        r.escaped = None
        del r.handled[:]
        srv.close()
        gc.collect()
        after = _fds()
        ctx.evaluations += 1
        ctx.count("real_connection_faults")
        ctx.nontriv(("realfd", kind, form, case["how"], case["after"]))
        ctx.label("realfd:" + kind, "form:" + form, "client:" + case["how"])
        ctx.sample(case, cls="realfd" + kind)
        tag = "%s:%s" % (kind, clients.FORMS[form][1])
        if escaped_sig is not None:
            return [Fail("escaped:%s:%s" % (tag, escaped_sig), "%s/%s over a real connection, client %ss after %d bytes: %s escaped the connection handler" % (
                kind, form, case["how"], case["after"], escaped_repr))]
        fails = []
        own = ("BrokenPipeError", "ConnectionResetError")
        classes = r.exception_classes()
        other = [c for c in classes if c not in own]
        if other:
            fails.append(Fail("logged-as-other:%s:%s" % (tag, other[0]), "%s/%s over a real connection, client %ss after %d bytes: logged as %s: %r" % (
                kind, form, case["how"], case["after"], other[0], r.logs[-2:])))
        rec = [l for l in r.logs if any("EXCEPTION %s:" % c in l for c in own)]
        if not rec:
            fails.append(Fail("not-logged:%s" % tag, "%s/%s over a real connection: the client %ss after reading %d of 3000000 bytes and "
                              "no log record names the connection failure: %r" % (kind, form, case["how"], case["after"], r.logs[-3:])))
        elif not [l for l in rec if l.startswith(drive.CLIENT[0] + " [")]:
            fails.append(Fail("log-lacks-context:%s" % tag, "the record lacks the client address: %r" % rec[:2]))
        leaked = {fd: t_ for fd, t_ in after.items() if fd not in before}
        if leaked:
            fails.append(Fail("fd-leak:%s" % kind, "%s/%s over a real connection: descriptors left open: %r" % (kind, form, leaked)))
        return fails
    finally:
        for c in conns:
            try:
                c.close()
            except OSError:
                pass
        lst.close()
        world.rmtree(base)


def _check_stalled(case, ctx):
    """A real server (socketserver classes, the configured socket timeout of 2 s) and a client that asks for a large
    document and then stops reading while keeping the connection: the send times out.  The failure must be logged with
    the client's address, the handler must end (no thread / child left) and the document must be closed."""
    import configparser
    import time
    from pgv import live
    base, root = world.build([["big.bin", "f", "0123456789abcdef" * 64 * 8000], ["small.txt", "f", "ok\n"]])  # 8 MB
    srv = None
    cli = None
    try:
        conf = live.write_conf(os.path.join(base, "s.conf"), root, "shipped", case["servertype"], cachetime=0, timeout=2)
        cp = configparser.ConfigParser()
        cp.read(conf)
        cp.set("logger", "logmethod", "file")
        with open(conf, "w") as f:
            cp.write(f)
        srv = live.Server(conf, capture_log=True, capture_err=True)
        base_threads = srv.threads()
        base_socks = srv.sockets()
        cli = live.connect(srv.port, 20)
        port = cli.getsockname()[1]
        if clients.FORMS[case["form"]][0]:
            cli = live.client_ctx().wrap_socket(cli, server_hostname="gopher.example")
        cli.sendall(clients.encode(case["form"], b"/big.bin"))
        if case.get("how") == "reset":
            import struct
            got = 0
            while got < 70000:
                got += len(cli.recv(65536) or b"x" * 70000)
            raw = cli.unwrap() if False else cli
            raw.setsockopt(socket.SOL_SOCKET, socket.SO_LINGER, struct.pack("ii", 1, 0))
            raw.close()
        ctx.nontriv(("stalled", case["servertype"], case["form"]))
        ctx.label("stalled-client:" + case["servertype"], "form:" + case["form"])
        ctx.sample(case, cls="stalled")
        ctx.evaluations += 1

        def holds_document():
            pids = [srv.pid]
            for d in os.listdir("/proc"):
                if d.isdigit():
                    try:
                        with open("/proc/%s/stat" % d) as f:
                            st_ = f.read()
                        if int(st_[st_.rfind(")") + 2:].split()[1]) == srv.pid:
                            pids.append(int(d))
                    except (OSError, ValueError, IndexError):
                        pass
            for p_ in pids:
                try:
                    for fd in os.listdir("/proc/%d/fd" % p_):
                        try:
                            if os.readlink("/proc/%d/fd/%s" % (p_, fd)).endswith("/big.bin"):
                                return True
                        except OSError:
                            pass
                except OSError:
                    pass
            return False
        deadline = time.time() + 20
        rec = []
        while time.time() < deadline:
            rec = [l for l in srv.logs if "EXCEPTION" in l]
            livec, _z = srv.children()
            th = srv.threads()
            if rec and not holds_document() and livec == 0 and (th is None or base_threads is None or th <= base_threads):
                break
            time.sleep(0.25)
        fails = []
        tag = "%s:%s" % (case["servertype"], clients.FORMS[case["form"]][1])
        if not rec:
            fails.append(Fail("stalled-client:not-logged:%s" % tag,
                              "a client asked for an 8 MB document over %s and stopped reading; 20 s later (socket timeout 2 s) no log "
                              "record names the failure: %r" % (case["form"], srv.logs[-3:])))
        elif not [l for l in rec if l.startswith("127.0.0.1 [")]:
            fails.append(Fail("stalled-client:log-lacks-context:%s" % tag, "the record lacks the client address: %r" % rec[:2]))
        if holds_document():
            fails.append(Fail("stalled-client:document-left-open:%s" % tag,
                              "20 s after the client stopped reading (socket timeout 2 s) the server still holds the document open"))
        livec, _z = srv.children()
        th = srv.threads()
        if livec or (th is not None and base_threads is not None and th > base_threads):
            fails.append(Fail("stalled-client:handler-never-ends:%s" % tag,
                              "20 s after the client stopped reading (socket timeout 2 s) its handler is still there: %d child processes, "
                              "%s threads (baseline %s)" % (livec, th, base_threads)))
        # nothing may leave the connection's thread uncaught
        # (the handler itself prints a traceback for I/O errors other than EPIPE / ECONNRESET: that is its own diagnostic;
        # "Exception in thread" is what the interpreter prints for an exception nobody caught)
        tb = [l for l in srv.errlines if "Exception in thread" in l]
        if tb:
            fails.append(Fail("stalled-client:propagated:%s" % tag,
                              "a failure left the connection handler: the server's standard error shows %r ... %r" % (tb[0], srv.errlines[-1:])))
        socks = srv.sockets()
        if socks is not None and base_socks is not None and socks > base_socks:
            time.sleep(1.0)
            socks = srv.sockets()
            if socks > base_socks:
                fails.append(Fail("stalled-client:connection-left-open:%s" % tag,
                                  "after the failed connection the server process holds %d socket descriptors (baseline %d)" % (socks, base_socks)))
        try:
            if live.request(srv.port, b"/small.txt\r\n", timeout=8) != b"ok\n":
                fails.append(Fail("stalled-client:server-impaired:%s" % tag, "after the stalled client the server answers wrongly"))
        except Exception as e:  # noqa
            fails.append(Fail("stalled-client:server-impaired:%s" % tag, "after the stalled client the server does not answer: %r" % (e,)))
        return fails
    finally:
        if cli is not None:
            try:
                cli.close()
            except OSError:
                pass
        if srv is not None:
            srv.stop()
        world.rmtree(base)


def check_case(case, ctx):
    if case.get("mode") == "realfd":
        return _check_realfd(case, ctx)
    if case.get("mode") == "stalled":
        return _check_stalled(case, ctx)
    kind, form, errname = case["kind"], case["form"], case["err"]
    tls, fam = clients.FORMS[form]
    req = _request(kind, form)
    if req is None:
        return []
    if fam in ("http", "wap") and (len(kind) + len(errname) + case["size"]) % 2 == 0:
        # request headers by which intermediaries (or anybody) name other addresses: the record names the peer of the connection
        req = req.replace(b"Host: gopher.example\r\n", b"Host: gopher.example\r\nX-Forwarded-For: 192.0.2.66, 198.51.100.7\r\n"
                          b"Forwarded: for=192.0.2.66\r\nX-Real-IP: 192.0.2.66\r\nClient-IP: 192.0.2.66\r\nVia: 1.1 192.0.2.66\r\n")
        ctx.label("names-other-addresses")
    base, root = world.build(_spec(case["size"], case["nmenu"]))
    fails = []
    try:
        cfg = drive.make_config(root, "full", **{"handlers.dir.DirHandler::cachetime": "0"})
        if kind == "unclaimed":
            cfg.set("protocols.ProtocolMultiplexer", "protocols",
                    "[gemini.GeminiProtocol]" if not tls else "[http.HTTPProtocol, gopherp.GopherPlusProtocol]")
        # fault-free run: number of write/flush calls
        w0 = FaultyWFile(None, None)
        r0 = drive.serve(cfg, req, tls=tls, wfile=w0)
        n = w0.ops
        if r0.escaped is not None and kind != "unclaimed":
            return [Fail("fault-free-run-failed", "fault-free %s/%s run raised %r" % (kind, form, r0.escaped))]
        ctx.label("kind:" + kind, "form:" + form, "err:" + errname, "writes:%s" % ("1-3" if n <= 3 else "4-9" if n <= 9 else "10+"))
        ctx.sample({"kind": kind, "form": form, "err": errname, "write_calls": n}, cls=kind)
        errcls = type(_err(errname)).__name__
        allowed = {errcls}
        if kind in ("error", "pcterror"):
            allowed.add("FileNotFound")
        if kind == "ioerror":
            allowed.add("OSError")  # the server-side failure itself may be logged too, next to the client's
        if kind == "unclaimed":
            allowed.add("AttributeError")  # today's code logs that nobody claimed the request as an AttributeError
        for k in range(0, n + 1):
            exc = _err(errname)
            w = FaultyWFile(k, errname, case.get("oneshot", False))
            gc.collect()
            before = _fds()
            r = drive.serve(cfg, req, tls=tls, wfile=w)
            # the recorder keeps the exception objects (and through their tracebacks every frame of the request)
            # alive: take what is needed, drop them, then take the census
            escaped_sig = drive.exc_signature(r.escaped) if r.escaped is not None else None
            escaped_repr = repr(r.escaped)
            r.escaped = None
            del r.handled[:]
            gc.collect()
            after = _fds()
            ctx.evaluations += 1
            ctx.count("faults_injected")
            if 0 < k < n:
                ctx.nontriv((kind, form, errname, k, case["size"], case["nmenu"]))
            where = "first" if k == 0 else ("last" if k >= n - 1 else "middle")
            if escaped_sig is not None:
                fails.append(Fail("escaped:%s:%s" % (fam, escaped_sig),
                                  "%s/%s: write %d of %d failing with %s: %s escaped the connection handler" % (kind, form, k, n, errcls, escaped_repr)))
                continue
            if k == n:
                # the fault-free number of calls was reached without a failure: nothing to log
                # (index n means "the call after the last one", i.e. finish()'s flush)
                pass
            classes = r.exception_classes()
            other = [c for c in classes if c not in allowed]
            if other:
                fails.append(Fail("logged-as-other:%s:%s:%s" % (fam, errcls, other[0]),
                                  "%s/%s: write %d of %d failing with %s(%s) is logged as %s: %r" % (
                                      kind, form, k, n, errcls, ", ".join(map(repr, exc.args)), other[0], r.logs[-2:])))
            if k < n:
                own = [l for l in r.logs if "EXCEPTION %s:" % errcls in l]
                if not own:
                    fails.append(Fail("not-logged:%s:%s" % (fam, errcls), "%s/%s: write %d of %d failing with %s leaves no log record of its own class: %r" % (
                        kind, form, k, n, errcls, r.logs[-3:])))
                else:
                    good = [l for l in own if l.startswith(drive.CLIENT[0] + " [") and (kind == "unclaimed" or ("[%s/" % _proto_class(form, kind)) in l)]
                    if not good:
                        fails.append(Fail("log-lacks-context:%s" % fam, "%s/%s: the %s record lacks client address or protocol class: %r" % (kind, form, errcls, own[:2])))
            leaked = {fd: t for fd, t in after.items() if fd not in before}
            if leaked:
                fails.append(Fail("fd-leak:%s:%s" % (kind, where), "%s/%s: write %d of %d failing: descriptors left open: %r" % (kind, form, k, n, leaked)))
            if len(fails) > 6:
                break
        seen, out = set(), []
        for f in fails:
            if f.sig not in seen:
                seen.add(f.sig)
                out.append(f)
        return out
    finally:
        world.rmtree(base)


def _proto_class(form, kind):
    tls, fam = clients.FORMS[form]
    return {("gopher", False): "GopherProtocol", ("gopher", True): "SecureGopherProtocol",
            ("gplus", False): "GopherPlusProtocol", ("gplus", True): "SecureGopherPlusProtocol",
            ("http", False): "HTTPProtocol", ("http", True): "HTTPSProtocol", ("head", False): "HTTPProtocol",
            ("wap", False): "WAPProtocol", ("gemini", True): "GeminiProtocol", ("spartan", False): "SpartanProtocol"}[(fam, tls)]
