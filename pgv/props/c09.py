"""C09 - gophermap files are rendered line for line as documented."""
from __future__ import annotations

from hypothesis import strategies as st

from pgv import clients, drive, world
from pgv.core import Fail

ID = "C09"
LEVEL = "exploration"
RULE = ("A gophermap of 0-15 lines (info lines incl. empty / leading blanks / markup / non-UTF-8 bytes; link lines "
        "'Tdesc TAB [sel [TAB host [TAB port]]]' with absolute, relative, URL: or missing selector, empty middle fields, "
        "blanks around fields, remote hosts; LF or CRLF) in a directory at depth 0-3 or as a *.gophermap file, listed "
        "through Gopher and a second protocol. Oracle: reference reading of the file per the manual's GOPHERMAP section "
        "(one entry per line, in order; type/description/selector/host/port defaults; relative selectors resolved "
        "against the directory holding the file); other protocols must show the same normalised entries. "
        "Non-trivial: >= 1 link line with < 4 fields and >= 1 info line, at depth >= 1.")
ASSUMPTIONS = [
    "link lines have a type character and a non-empty description; an explicitly empty selector together with a remote "
    "host is not generated (Bucktooth's null-selector reading and the manual's default disagree)",
    "informational text is compared modulo surrounding blanks (the manual is silent on them) and does not start with "
    "gemtext link markers",
    "blanks around a tab field are insignificant",
]

desc_st = st.one_of(
    st.text("abcdefg XYZ019.,:;!?&<>'\"()-_", min_size=1, max_size=16),
    st.sampled_from(["caf\xc3\xa9", "na\xefve \xff", "a  b", "<b>bold</b>", " lead", "1 digit first", "x"]),
    # text that a %-format, str.format or a regular-expression template would expand
    st.sampled_from(["100%% organic", "Save 50% on everything", "Battery at 5% - charge", "%s", "%(icon)s %(url)s", "{0} {url}", "\\1 \\g<0>", "100%"]),
    # characters some line-splitting routines (str.splitlines) treat as line ends although the line goes on
    st.sampled_from(["vt\x0btab", "form\x0cfeed", "fs\x1cgs\x1drs\x1eus\x1fend", "nel\xc2\x85mid", "ls\xe2\x80\xa8ps\xe2\x80\xa9end", "Minutes\xe2\x80\xa82021"]),
).filter(lambda s: s.strip() != "" and "\t" not in s)
info_st = st.one_of(
    st.text("abcdefg XYZ019.,:;!?&<>'\"()-_", max_size=24),
    st.sampled_from(["", "   ", "  indented text", "trailing   ", "\xff\xfe raw bytes", "Welcome to <gopher> & co", "i looks like a type",
                     "50% off", "100%% sure", "%(subtype)s", "{}", "# Papers", "#2 in the series", "#", "; a note", "// x", "-- y", "! z", "info\x0bwith\x0cseparators", "info\xe2\x80\xa8line separator", "x\x1cy\x1dz", "nel\xc2\x85here"]),
).filter(lambda s: not s.strip().startswith("=>") and not s.strip().startswith("=:"))
seg = st.text("abcdefghijk0123", min_size=1, max_size=5)
TYPES = list("01345679ghIsMiT8+2")


@st.composite
def _line(draw):
    k = draw(st.sampled_from(["info", "info", "l1", "l2rel", "l2abs", "l2url", "l3", "l4", "l4emptyhost", "l2empty", "l4emptysel"]))
    if k == "info":
        return {"k": "info", "text": draw(info_st)}
    t = draw(st.sampled_from(TYPES))
    desc = draw(desc_st)
    if k in ("l1", "l2empty", "l4emptysel") and draw(st.integers(0, 2)) == 0:
        # the description doubles as the selector: one that is an absolute path or a URL: link stays that
        desc = draw(st.sampled_from(["/pub", "/pub/files", "URL:http://example.org/", "URL:mailto:a@example.org", "/"]))
        if desc.startswith("URL:"):
            t = "h"  # (as for every generated URL: link)
    pad = draw(st.sampled_from(["", "", "", " "]))
    if k == "l1":
        f = [t + desc, None]  # 'Tdesc TAB' with nothing after it
    elif k == "l2empty":
        f = [t + desc, ""]
    elif k == "l2rel":
        f = [t + desc, "/".join(draw(st.lists(seg, min_size=1, max_size=2)))]
    elif k == "l2abs":
        f = [t + desc, "/" + "/".join(draw(st.lists(seg, min_size=1, max_size=3)))]
    elif k == "l2url":
        f = ["h" + desc, draw(st.sampled_from(["URL:http://www.example.org/", "/URL:https://example.org/a?b=c", "URL:ftp://ftp.example.org/pub",
                                           "URL:mailto:a@example.org", "URL:news:comp.infosystems.gopher", "URL:tel:+15551234",
                                           "URL:", "URL:x",
                                           # characters that markup-based protocols have to escape - once
                                           "URL:http://www.example.com/find?q=gopher&lang=en", "URL:http://example.org/a?x=1&amp;y=<2>",
                                           "URL:http://example.org/it's%20a%26b?c='d'&e"]))]
    elif k == "l3":
        f = [t + desc, "/" + draw(seg), draw(st.sampled_from(["other.example", "gopher.floodgap.com"]))]
    elif k == "l4":
        f = [t + desc, draw(st.sampled_from(["/", "/x/y", "rel/path", "0/x"])), draw(st.sampled_from(["other.example", "h2.example.org"])),
             # (0 is what full-form info and error lines pasted from other menus carry; 65535 is the largest port)
             str(draw(st.sampled_from([70, 7070, 105, 0, 0, 65535, 1])))]
    elif k == "l4emptyhost":
        f = [t + desc, "/" + draw(seg), "", str(draw(st.sampled_from([70, 7071])))]
    else:  # l4emptysel: empty selector but local host omitted -> defaults to description (relative)
        f = [t + desc, "", "", ""]
    return {"k": k, "fields": f, "pad": pad}


@st.composite
def _case(draw):
    return {"lines": draw(st.lists(_line(), max_size=15)), "crlf": draw(st.booleans()),
            "depth": draw(st.integers(0, 3)), "asfile": draw(st.sampled_from([False, False, False, True])),
            "form2": draw(st.sampled_from(["http", "https", "wap", "gemini", "spartan", "gdollar", "gplus"])),
            "final_newline": draw(st.booleans()), "existing": draw(st.booleans()),
            # sub-directories whose names other handlers look for (a Maildir has 'new' and 'cur'; a mail spool, a ZIP ...):
            # a directory with a gophermap is a gophermap directory whatever else it holds
            "furniture": draw(st.sampled_from([None, None, "maildir-empty", "maildir-files", "cap-names"]))}


def strategy(tier):
    return _case()


def examples(tier):
    return 8000 if tier == "quick" else 150000


def _text(case):
    nl = "\r\n" if case["crlf"] else "\n"
    out = []
    for ln in case["lines"]:
        if ln["k"] == "info":
            out.append(ln["text"])
        else:
            f = ln["fields"]
            pad = ln["pad"]
            parts = [f[0]] + [(pad + x + pad) if x else x for x in f[1:] if x is not None]
            if f[1] is None:
                out.append(f[0] + "\t")
            else:
                out.append("\t".join(parts))
    text = nl.join(out)
    if out and (case["final_newline"] or out[-1] == ""):
        text += nl  # (an empty last line only exists if it is terminated)
    return text


def _model(case, dirsel):
    """reference reading -> list of ('info', text) / ('link', type, name, selector, host, port)"""
    base = "" if dirsel == "/" else dirsel
    out = []
    for ln in case["lines"]:
        if ln["k"] == "info":
            out.append(("info", ln["text"].strip()))
            continue
        f = [x.strip() if x is not None else None for x in ln["fields"]]
        first = f[0]
        typ, name = first[0], first[1:]
        sel = f[1] if len(f) > 1 and f[1] else name
        if not sel.startswith("/") and not sel.startswith("URL:"):
            sel = base + "/" + sel
        host = f[2] if len(f) > 2 and f[2] else None
        port = int(f[3]) if len(f) > 3 and f[3] else None
        out.append(("link", typ, name, sel, host, port))
    return out


def check_case(case, ctx):
    depth = case["depth"]
    dirs = ["lvl%d" % i for i in range(depth)]
    dpath = "/".join(dirs)
    dirsel = "/" + dpath if dpath else "/"
    pre = dpath + "/" if dpath else ""
    text = _text(case)
    if text.split("\n")[-1:] == [""] and False:
        pass
    spec = []
    if dpath:
        spec.append([dpath, "d", None])
    if case["asfile"]:
        spec.append([pre + "menu.gophermap", "f", text])
        reqsel = (dirsel if dirsel != "/" else "") + "/menu.gophermap"
    else:
        spec.append([pre + "gophermap", "f", text])
        reqsel = dirsel
    spec.append([pre + "other.txt", "f", "not in the map\n"])
    fur = case.get("furniture")
    if fur and not case["asfile"]:
        if fur.startswith("maildir"):
            for sub in ("new", "cur", "tmp"):
                spec.append([pre + sub, "d", None])
            if fur == "maildir-files":
                spec.append([pre + "new/1", "f", "no header lines here\n"])
                spec.append([pre + "cur/2:2,S", "f", "From: a@b\nSubject: looks like mail\n\nbody\n"])
        else:
            spec.append([pre + ".names", "f", "Name=Not used\nType=1\nPath=/x\nHost=h.example\nPort=70\n"])
            spec.append([pre + ".cap/other.txt", "f", "Name=Not used either\n"])
    want = _model(case, dirsel)
    if case["existing"]:
        # make some local targets exist (the server then fills in Gopher+ data for them)
        for w in want:
            if w[0] == "link" and w[4] is None and w[5] is None and not w[3].startswith(("URL:", "/URL:")):
                p = w[3].strip("/")
                if p and all(s not in ("", ".", "..") for s in p.split("/")) and "\0" not in p and not any(
                        sp[0] == p or sp[0].startswith(p + "/") or p.startswith(sp[0] + "/") for sp in spec):
                    spec.append([world.u(w[3].encode("utf-8", "surrogateescape")).strip("/") if False else p, "f", "target\n"])
                    break
    d, root = world.build(spec)
    try:
        cfg = drive.make_config(root, "shipped", abstract_entries="never", abstract_headers="off",
                                **{"handlers.dir.DirHandler::cachetime": "0"})
        r = drive.serve(cfg, clients.encode("gopher", world.b(reqsel)))
        nshort = sum(1 for ln in case["lines"] if ln["k"] != "info" and len([x for x in ln["fields"] if x]) < 4)
        ninfo = sum(1 for ln in case["lines"] if ln["k"] == "info")
        if nshort and ninfo and depth >= 1:
            ctx.nontriv()
        ctx.label("depth:%d" % depth, "asfile" if case["asfile"] else "dirmap", "crlf" if case["crlf"] else "lf",
                  "lines:%s" % ("0" if not case["lines"] else "1-5" if len(case["lines"]) <= 5 else "6-15"))
        ctx.sample({"gophermap": text, "depth": depth, "asfile": case["asfile"]}, cls="%s%s" % (case["asfile"], depth > 0))
        if r.escaped is not None or r.exception_classes():
            return [Fail("listing-error:%s" % (r.handled_signatures() or [drive.exc_signature(r.escaped) if r.escaped else "?"])[0],
                         "gophermap listing raised: %r" % (r.logs[-1:],), {"gophermap": text})]
        pr = clients.parse_response("gopher", r.response, expect_menu=True)
        if not pr.ok or pr.problems:
            return [Fail("listing-failed", "gophermap listing of %r failed: %r %r" % (reqsel, pr.problems, r.response[:200]), {"gophermap": text})]
        ents = clients.parse_gopher_menu(pr.body)
        got = []
        for line in pr.body.split(b"\r\n"):
            if not line:
                continue
            f = line[1:].split(b"\t")
            typ = chr(line[0])
            if typ == "i" and len(f) >= 4 and f[1] == b"fake" and f[2] == b"(NULL)" and f[3] == b"0":
                got.append(("info", f[0].decode("latin-1").strip()))
            else:
                got.append(("link", typ, f[0].decode("latin-1"), f[1].decode("latin-1"), f[2].decode(), int(f[3])))
        wantr = []
        for w in want:
            if w[0] == "info":
                wantr.append(w)
            else:
                wantr.append(("link", w[1], w[2], w[3], w[4] if w[4] is not None else clients.HOST.decode(),
                              w[5] if w[5] is not None else clients.PORT))
        fails = []
        if got != wantr:
            i = next((k for k, (a, b_) in enumerate(zip(got, wantr)) if a != b_), min(len(got), len(wantr)))
            g = got[i] if i < len(got) else None
            w = wantr[i] if i < len(wantr) else None
            what = "count"
            if g and w:
                if g[0] != w[0]:
                    what = "kind"
                else:
                    names = ("kind", "type", "name", "selector", "host", "port")
                    what = "+".join(n for n, a, b_ in zip(names, g, w) if a != b_)
            fails.append(Fail("map-differs:%s:%s" % ("file" if case["asfile"] else "dir", what),
                              "line %d of the gophermap reads %r per the manual, listing shows %r (%d vs %d entries)" % (
                                  i, w, g, len(wantr), len(got)), {"gophermap": text, "response": world.u(r.response[:600])}))
            return fails
        # same gophermap drives every protocol
        f2 = case["form2"]
        r2 = drive.serve(cfg, clients.encode(f2, world.b(reqsel)), tls=clients.FORMS[f2][0])
        p2 = clients.parse_response(f2, r2.response, expect_menu=True)
        if r2.escaped is not None or not p2.ok or p2.problems:
            fails.append(Fail("listing-failed:%s" % clients.FORMS[f2][1], "%s listing of the gophermap failed: %r" % (f2, r2.response[:150])))
            return fails
        e2 = clients.parse_listing(f2, p2)
        fam = clients.FORMS[f2][1]

        def nk(e, gem):
            name = e["name"]
            if e["target"] and e["target"][0] == "remote":
                # a remote item is a gopher:// URL in URL-based protocols: its kind is the type character in it
                e = dict(e, kind="search" if e["target"][3] == "7" else "link")
            if e["kind"] == "info":
                name = name.strip()
            if gem:
                name = clients.gemini_name(name)
            return (e["kind"], name, e["target"])
        a = [nk(e, False) for e in e2]
        b_ = [nk(e, fam in ("gemini", "spartan")) for e in ents]
        if fam in ("gemini", "spartan"):
            a = [(k, n.strip() if k == "info" else n, t) for k, n, t in a]
            b_ = [(k, n.strip() if k == "info" else n, t) for k, n, t in b_]
        if fam in ("http", "wap"):
            # leading/trailing blanks of names are not significant in HTML/WML text
            a = [(k, n.strip(), t) for k, n, t in a]
            b_ = [(k, n.strip(), t) for k, n, t in b_]
        if a != b_:
            i = next((k for k, (x, y) in enumerate(zip(a, b_)) if x != y), min(len(a), len(b_)))
            fails.append(Fail("protocols-differ:%s" % fam, "%s shows %r where Gopher shows %r (entry %d)" % (
                f2, a[i] if i < len(a) else None, b_[i] if i < len(b_) else None, i), {"gophermap": text}))
        if not fails and not case["asfile"] and fam == "http" and case["depth"] % 2 == 0:
            # a web client that revalidates its copy: the map is rewritten IN PLACE (the directory's own timestamp does not
            # move), then the same client asks again, saying since when it has its copy - it must be shown the new line
            import os
            ddir = os.path.join(root, dpath) if dpath else root
            st_ = os.stat(ddir)
            lm = dict(p2.headers).get(b"last-modified")
            with open(os.path.join(ddir, "gophermap"), "ab") as f:
                if not case["final_newline"]:
                    f.write(b"\r\n" if case["crlf"] else b"\n")
                f.write(b"0Added after the first visit\t/added-later\r\n" if case["crlf"] else b"0Added after the first visit\t/added-later\n")
            os.utime(ddir, (st_.st_atime, st_.st_mtime))
            if lm:
                rq = clients.encode(f2, world.b(reqsel)).replace(b"Host: gopher.example\r\n", b"Host: gopher.example\r\nIf-Modified-Since: " + lm + b"\r\n")
                r3 = drive.serve(cfg, rq, tls=clients.FORMS[f2][0])
                ctx.label("revalidation")
                if b"Added after the first visit" not in r3.response:
                    fails.append(Fail("revalidation-stale:%s" % fam, "the gophermap was rewritten in place; a %s client that asks again with "
                                      "If-Modified-Since: %r is not shown the new line: %r %r" % (f2, lm, r3.response[:80], r3.escaped)))
        return fails
    finally:
        world.rmtree(d)
