"""C02 - Protocol autodetection is deterministic, ordered and strict about TLS."""
from __future__ import annotations

from hypothesis import strategies as st

from pgv import drive, world
from pgv.core import Fail
from pgv.model import proto as M

ID = "C02"
LEVEL = "exploration"
RULE = ("First lines from a near-miss grammar (HTTP-, Gopher+-, Spartan-, Gemini-shaped and arbitrary bytes) x "
        "TLS flag x following header block x protocol list (shipped order, or a generated permutation/sub-list); "
        "oracle = reference classifier of the documented request shapes, first match in configured order with "
        "matching TLS-ness. Non-trivial: >= 2 non-Gopher shapes match, or a matching shape loses because of "
        "TLS-ness or order, or the line is a near miss (empty Gopher+ field, tab/extra blank in an HTTP line, "
        "non-ASCII Spartan line, wrong-case scheme). Distinct = (shape vector, tls, order). "
        "The live first-byte sweep (256 values, exhaustive) is part of this check: see coverage.first_byte_sweep.")
ASSUMPTIONS = [
    "where the documents do not settle a shape (whitespace at token edges, Accept header without a blank) "
    "either answer is accepted; the check then only asserts order, TLS strictness and determinism",
    "TLS-ness is represented as in the repository's own tests: the request object is an ssl.SSLSocket instance",
]

METHODS = ["GET", "HEAD", "get", "POST", "GETX", "GE", "GET\t", "\tGET", ""]
SEPS = [" ", " ", " ", "  ", "\t", " \t"]
PATHS = ["/", "/wap", "/wap/x", "/wapx", "/x", "/a%20b", "/x\t+", "/x\t$", "*", "", "/x?searchrequest=a+b",
         "gemini://h/", "/\xff"]
VERSIONS = ["HTTP/1.0", "HTTP/1.1", "HTTP/", "HTTP/1.0 ", "http/1.0", "HTTP", "", "HTTP/1.0 x", "1", "0", "HTTPS/1"]
TERMS = ["\r\n", "\n", "", "\r", " \r\n"]
GP_LAST = ["+", "!", "$", "+x", "$x", "!x", "x", "", " +", "+ ", "\t", "+\r", "++", "-", "\xa0+", "0"]
HEADER_LINES = [
    "Accept: text/html, text/vnd.wap.wml", "Accept: text/vnd.wap.wml", "Accept:text/vnd.wap.wml",
    "accept: image/gif,text/vnd.wap.wml;q=0.5", "ACCEPT: text/html", "Accept: text/vnd.wap.wmlx, */*",
    "Accept: xtext/vnd.wap.wml", "x-wap-profile: http://x/p", "X-Wap-Profile: \"p\"", "x-up-devcap-max-pdu: 1024",
    "Host: h", "User-Agent: Nokia", "Accept", "x-wap-profile", ": x", "Accept : text/vnd.wap.wml",
    # device headers that are present with an empty / blank / falsy-looking value (the documented test is presence)
    "x-wap-profile:", "X-Wap-Profile: ", "x-up-devcap-max-pdu:   ", "x-up-devcap-max-pdu: 0", "Accept:", "Accept: ",
]


def _txt(alpha, mx):
    return st.text(alpha, max_size=mx)


sel_txt = st.one_of(st.sampled_from(["", "/", "/a", "/a b", "x", "/\xe9", "GET / HTTP/1.0", "gemini://x"]),
                    _txt("/ab. \xff?|", 8))

http_like = st.builds(lambda m, s1, p, s2, v, t: m + s1 + p + s2 + v + t,
                      st.sampled_from(METHODS), st.sampled_from(SEPS), st.sampled_from(PATHS),
                      st.sampled_from(SEPS), st.sampled_from(VERSIONS), st.sampled_from(TERMS))
gplus_like = st.builds(lambda s, mid, last, t: s + "".join("\t" + m for m in mid) + "\t" + last + t,
                       sel_txt, st.lists(st.sampled_from(["", "q", "a b", "+", "$"]), max_size=3),
                       st.sampled_from(GP_LAST), st.sampled_from(TERMS))
spartan_like = st.builds(lambda h, s1, p, s2, n, t: h + s1 + p + s2 + n + t,
                         st.sampled_from(["h", "gopher.example", "", "h\xe9", "GET", "h\tx"]),
                         st.sampled_from(SEPS), st.sampled_from(["/", "/x", "", "/a%20b", "/\xff", "HTTP/1.0"]),
                         st.sampled_from(SEPS),
                         st.sampled_from(["0", "5", "007", "-1", "1.0", "", "x", "\xb2", "1 ", "+5", "+0", "-0", "1_000", "0x10", "1e3", "\x0b0", "0\x0c", "٣".encode().decode("latin-1"), "HTTP/1.0", "+"]),
                         st.sampled_from(TERMS))
gemini_like = st.builds(lambda pre, rest, t: pre + rest + t,
                        st.sampled_from(["gemini://", "gemini://", "Gemini://", " gemini://", "gemini:/", "gemini:", "/gemini://"]),
                        st.sampled_from(["h/", "h/x y 3", "h/x\t+", "", "[", "h/ HTTP/1.0"]), st.sampled_from(TERMS))
raw_line = st.binary(max_size=24).map(lambda b: b.decode("latin-1"))

# very long first lines whose shape is decided by their tail (the token <<PAD>> stands for `pad` bytes of 'a')
long_like = st.builds(lambda shape, t: shape + t,
                      st.sampled_from(["GET /<<PAD>> HTTP/1.0", "HEAD /<<PAD>> HTTP/1.1", "GET /wap/<<PAD>> HTTP/1.0", "/<<PAD>>\t+",
                                       "/<<PAD>>\t$", "/<<PAD>>\tq\t!", "h /<<PAD>> 0", "h /<<PAD>> 12", "gemini://h/<<PAD>>",
                                       "/<<PAD>>", "<<PAD>>\t", "/x\t<<PAD>>"]),
                      st.sampled_from(["\r\n", "\n"]))
# a line of any documented shape behind a UTF-8 byte order mark (or another invisible prefix): it has that shape no longer
marked_like = st.builds(lambda pre, l: pre + l, st.sampled_from(["\xef\xbb\xbf", "\xef\xbb\xbf", "\xfe\xff", "\xff\xfe", "\xe2\x80\x8b", "\x00"]),
                        st.one_of(http_like, spartan_like, gemini_like, gplus_like))
line_st = st.one_of(http_like, http_like, gplus_like, gplus_like, spartan_like, gemini_like, raw_line, long_like, marked_like,
                    st.sampled_from(["\r\n", "\n", "", "\t\r\n", "/\r\n"]))

headers_st = st.lists(st.sampled_from(HEADER_LINES), max_size=4).map(
    lambda ls: "".join(l + "\r\n" for l in ls) + "\r\n")

order_st = st.one_of(
    st.just("shipped"),
    st.permutations(M.SHIPPED_ORDER),
    st.lists(st.sampled_from(M.SHIPPED_ORDER), min_size=1, max_size=9, unique=True),
    # ... and lists that name the other two protocol classes the package ships
    st.lists(st.sampled_from(M.ALL_CLASSES), min_size=1, max_size=11, unique=True),
)


@st.composite
def _case(draw):
    line = draw(line_st)
    # readline() semantics: the first line ends at the first LF
    i = line.find("\n")
    rest = ""
    if i >= 0 and i + 1 < len(line):
        line, rest = line[: i + 1], line[i + 1:]
    return {"line": line, "rest": rest + draw(headers_st), "tls": draw(st.booleans()),
            "pad": draw(st.sampled_from([1000, 4096, 8192, 65520, 65530, 65536, 65537, 70000, 131072, 300000])) if "<<PAD>>" in line else 0,
            "order": (lambda o: o if o == "shipped" else list(o))(draw(order_st))}


def strategy(tier):
    return _case()


def examples(tier):
    return 20000 if tier == "quick" else 400000


_cfg = None
_shipped_value = None


def _config(order):
    """order == 'shipped': the [protocols.ProtocolMultiplexer] value of conf/pygopherd.conf in the working
    tree, untouched; the model's order is read from that text."""
    global _cfg, _shipped_value
    if _cfg is None:
        _cfg = drive.make_config("/nonexistent-root", "shipped")
        _shipped_value = _cfg.get("protocols.ProtocolMultiplexer", "protocols")
    if order == "shipped":
        import re
        _cfg.set("protocols.ProtocolMultiplexer", "protocols", _shipped_value)
        names = re.findall(r"\b\w+\.(\w+)", _shipped_value)
        return _cfg, [n for n in names if n in M.CLASSES]
    _cfg.set("protocols.ProtocolMultiplexer", "protocols",
             "[" + ", ".join(M.CONFIG_NAMES[c] for c in order) + "]")
    return _cfg, order


def enumerate_cases(tier, seed):
    yield {"mode": "firstbyte"}


def _first_byte_sweep(ctx):
    """Live sub-check, exhaustive over the 256 values of the first byte: real sockets, the repository's TLS context,
    an echo handler class.  Plaintext lines must come back unchanged (nothing consumed by the sniff) for every first
    byte except 0x16; a stream starting with 0x16 is taken for TLS (no echo); a real TLS client is echoed."""
    import os
    import socket
    import socketserver
    import threading
    from pygopherd import initialization
    import pygopherd.server
    from pgv import live

    class Echo(socketserver.StreamRequestHandler):
        def handle(self):
            self.wfile.write(b"ECHO:" + self.rfile.readline())

    cfg = drive.make_config("/nonexistent-root", "shipped", enable_tls="yes", timeout="2",
                            tls_certfile=os.path.join(drive.REPO, "testdata", "demo.crt"),
                            tls_keyfile=os.path.join(drive.REPO, "testdata", "demo.key"))
    context = initialization.init_ssl_context(cfg)
    srv = pygopherd.server.ThreadingTCPServer(cfg, ("127.0.0.1", 0), Echo, context=context)
    srv.handle_error = lambda *a: None  # a failed handshake (the 0x16 probe) is expected; keep stderr quiet
    port = srv.socket.getsockname()[1]
    th = threading.Thread(target=srv.serve_forever, kwargs={"poll_interval": 0.05}, daemon=True)
    th.start()
    fails = []
    try:
        for b in range(256):
            line = bytes([b]) + b"rest of the first line\r\n"
            try:
                got = live.request(port, line + b"second line\r\n", tls=False, timeout=5)
            except (OSError, socket.timeout) as e:
                got = e
            ctx.evaluations += 1
            ctx.count("first_byte_values", 1)
            ctx.nontriv(("firstbyte", b))
            want = b"ECHO:" + line[: line.index(b"\n") + 1]
            if b == 0x16:
                if isinstance(got, bytes) and got.startswith(b"ECHO:"):
                    fails.append(Fail("firstbyte:0x16-not-tls", "a stream starting with 0x16 was served as plaintext: %r" % got[:40]))
            elif got != want:
                fails.append(Fail("firstbyte:plaintext-altered", "plaintext line starting with byte 0x%02x came back as %r (want %r): "
                                  "the TLS sniff consumed or misjudged it" % (b, got if not isinstance(got, bytes) else got[:60], want[:60])))
        for k in range(4):
            line = b"tls line %d\r\n" % k
            try:
                got = live.request(port, line, tls=True, timeout=5)
            except (OSError, socket.timeout) as e:
                got = e
            ctx.evaluations += 1
            if got != b"ECHO:" + line:
                fails.append(Fail("firstbyte:tls-not-echoed", "a real TLS client was not served: %r" % (got,)))
        # a first byte that arrives LATE (after the server's socket timeout of 2 s has passed once): the connection is
        # TLS exactly when that byte is 0x16, however long it took - it must never be answered in plaintext
        import time
        for first in (0x16, 0x2f):
            got = None
            try:
                c = live.connect(port, 10)
                time.sleep(3.0)
                got = live.exchange(c, bytes([first]) + b"late first line\r\nsecond line\r\n", False, 6)
            except (OSError, socket.timeout) as e:
                got = e
            ctx.evaluations += 1
            ctx.count("late_first_bytes", 1)
            if first == 0x16 and isinstance(got, bytes) and got.startswith(b"ECHO:"):
                fails.append(Fail("firstbyte:late-0x16-not-tls", "a client was silent for 3 s (socket timeout 2 s) and then sent a stream "
                                                                  "starting with 0x16: it was served as plaintext: %r" % got[:40]))
            if first == 0x2f and isinstance(got, bytes) and got and got != b"ECHO:/late first line\r\n":
                fails.append(Fail("firstbyte:late-plaintext-altered", "a late plaintext line came back as %r" % got[:60]))
        ctx.label("firstbyte-sweep")
        ctx.count("first_byte_sweep_exhaustive", 1)
        ctx.sample({"first_byte_sweep": "256 plaintext first-byte values + 4 TLS connections on a live socket"}, cls="firstbyte")
    finally:
        srv.shutdown()
        srv.server_close()
    seen, out = set(), []
    for f in fails:
        if f.sig not in seen:
            seen.add(f.sig)
            out.append(f)
    return out


def check_case(case, ctx):
    if case.get("mode") == "firstbyte":
        return _first_byte_sweep(ctx)
    line, rest, tls, order = world.b(case["line"]), world.b(case["rest"]), case["tls"], case["order"]
    line = line.replace(b"<<PAD>>", b"a" * case.get("pad", 0))
    if not line.endswith(b"\n"):
        rest = b""  # a first line without its LF is the end of what the client sent

    shipped = order == "shipped"
    cfg, order = _config(order)
    want, sh = M.expected_winners(line, rest, tls, order)
    got = []
    for _ in range(2):
        try:
            # through the connection handler, which reads the first line itself
            p, seen_line = drive.detect(cfg, line + rest, tls)
            got.append(type(p).__name__ if p is not None else None)
            if seen_line is not None and seen_line.encode(errors="surrogateescape") != line:
                got[-1] = "%s(after the first line was read as %d of its %d bytes)" % (got[-1], len(seen_line), len(line))
        except Exception as e:
            got.append("raise:" + drive.exc_signature(e))
    # classification for evidence
    true_shapes = [k for k, v in sh.items() if v is True and k != "gopher"]
    if sh["wap"] is True and "http" in true_shapes:
        true_shapes.remove("http")  # WAP implies HTTP: not an overlap of independent shapes
    winner = got[0]
    fam = M.CLASSES[winner][0] if winner in M.CLASSES else None
    near = (b"\t" in line and sh["gplus"] is False) or (sh["http"] in (False, None) and line[:3].upper() in (b"GET", b"HEA")) \
        or (any(c >= 0x80 for c in line)) or line.lower().startswith(b"gemini:") or None in sh.values()
    lost = bool(true_shapes) and fam not in true_shapes
    if len(true_shapes) >= 2 or lost or near:
        ctx.nontriv((tuple(sorted((k, str(v)) for k, v in sh.items())), tls, tuple(order)))
    ctx.label("winner:%s" % winner, "tls:%s" % tls, "order:%s" % ("shipped" if shipped else "other"),
              "overlap>=2" if len(true_shapes) >= 2 else "overlap<2",
              "unsettled" if None in sh.values() else "settled")
    if len(true_shapes) >= 2:
        ctx.sample(cls="overlap")
    elif lost:
        ctx.sample(cls="lost")
    elif near:
        ctx.sample(cls="near")

    fails = []
    if got[0] != got[1]:
        fails.append(Fail("nondeterministic", "same line and TLS flag, two answers: %r" % (got,)))
    g = got[0]
    if isinstance(g, str) and g.startswith("raise:"):
        fails.append(Fail("getProtocol-" + g, "protocol detection raised on line %r tls=%r" % (line, tls)))
        return fails
    note = ""
    if isinstance(g, str) and "(after the first line was read as" in g:
        # a server may bound the first line; what the statement forbids is a different winner
        g, note = g.split("(", 1)[0], " (" + g.split("(", 1)[1]
        if g == "None":
            g = None
    if g is not None and M.CLASSES[g][1] != bool(tls):
        fails.append(Fail("tls-mismatch:" + g, "%s (secure=%r) claimed a %s connection, line %r" % (
            g, M.CLASSES[g][1], "TLS" if tls else "plaintext", line)))
    if g not in want:
        fails.append(Fail("wrong-winner:got=%s:want=%s" % (g, "|".join(sorted(map(str, want)))),
                          "line %r tls=%r order=%s: claimed by %s%s, documented shapes give %s (shapes %r)" % (
                              line[:200], tls, "shipped" if shipped else order, g, note, sorted(map(str, want)), sh)))
    if shipped and g is None:
        fails.append(Fail("unclaimed", "shipped list: nobody claims line %r tls=%r" % (line, tls)))
    return fails
