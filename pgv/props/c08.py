"""C08 - UMN link files, .cap overrides and abstracts have their documented effect."""
from __future__ import annotations

from hypothesis import strategies as st

from pgv import clients, drive, world
from pgv.core import Fail
from pgv.model import listing as L

ID = "C08"
LEVEL = "exploration"
RULE = ("A directory of 1-6 files/sub-directories (typed extensions, HTML titles, sidecar .abstract files) plus 0-3 link "
        "files (.names/.Links/.link) of 0-4 blocks each (new links: all five fields in any order + optional "
        "Numb/Abstract, Path absolute/relative/URL:, Host/Port '+' or literal; overrides: Path=./name + any subset and "
        "order of Name/Type/Numb/Abstract, Type possibly X or -; comments, continuation abstracts) and .cap/<name> "
        "files, under extstrip none/nonencoded/full. Oracle: reference reading of the same files per the manual "
        "(multiset of (type, name, selector, host, port, +flag, abstract) and the documented order: positives by "
        "number, then unnumbered by title, then negatives). Non-trivial: >= 1 override and >= 1 new link, or a "
        "hide, or mixed-sign numbers.")
ASSUMPTIONS = [
    "at most one link-file block and one .cap file override a given entry (no documented precedence otherwise)",
    "titles are lower-case ASCII, so 'by title' is unambiguous; entries tying on number and title are not order-checked",
    "overrides target entries that are listed; new links name all five fields (manual)",
]

EXTS = ["", ".txt", ".html", ".gif", ".c", ".pdf", ".tar.gz", ".tgz", ".txt.gz", ".dat"]
base_st = st.text("abcdefghijklmnopqrstuvwxyz", min_size=1, max_size=5)
title_st = st.text("abcdefghij klmnopqrstuvwxyz0123456789", min_size=1, max_size=12).map(lambda s: " ".join(s.split())).filter(bool)
abs_line = st.text("abcdefgh ijkl0123.,", min_size=1, max_size=16).map(str.strip).filter(bool)
numb_st = st.sampled_from([-3, -1, 0, 1, 1, 2, 3, 5])
type_st = st.sampled_from(["0", "1", "9", "h", "I", "g", "s"])


@st.composite
def _override_fields(draw, allow_hide=True):
    fields = []
    if draw(st.booleans()):
        fields.append(["Name", draw(title_st)])
    tchoice = draw(st.sampled_from(["none", "none", "set", "X", "-"] if allow_hide else ["none", "set"]))
    if tchoice == "set":
        fields.append(["Type", draw(type_st)])
    elif tchoice in ("X", "-"):
        fields.append(["Type", tchoice])
    if draw(st.booleans()):
        fields.append(["Numb", str(draw(numb_st))])
    if draw(st.booleans()):
        fields.append(["Abstract", draw(st.lists(abs_line, min_size=1, max_size=3))])
    return draw(st.permutations(fields)) if fields else [["Name", draw(title_st)]]


@st.composite
def _new_block(draw, existing=None):
    """existing = (directory selector, child names): a new link may also point at an object the directory lists anyway
    (absolute or relative spelling, local or under a foreign host) - it is still a NEW entry, whatever happens to the child"""
    kind = draw(st.sampled_from(["abs", "rel", "url", "remote", "remoterel"] + (["same-abs", "same-rel", "same-remote"] if existing and existing[1] else [])))
    host, port = "+", "+"
    if kind.startswith("same"):
        child = draw(st.sampled_from(existing[1]))
        path = child if kind == "same-rel" else (existing[0].rstrip("/") + "/" + child)
        if kind == "same-remote":
            host, port = "mirror.example", "70"
    elif kind == "abs":
        path = "/" + "/".join(draw(st.lists(base_st, min_size=1, max_size=3)))
    elif kind == "rel":
        path = "/".join(draw(st.lists(base_st, min_size=1, max_size=2)))
    elif kind == "url":
        path = draw(st.sampled_from(["URL:http://www.example.org/x", "/URL:ftp://ftp.example.org/pub/a", "URL:https://example.org/?q=1"]))
    else:
        path = ("/" if kind == "remote" else "") + "/".join(draw(st.lists(base_st, min_size=1, max_size=2)))
        host = draw(st.sampled_from(["other.example", "gopher.floodgap.com"]))
        port = str(draw(st.sampled_from([70, 7070, 79])))
    fields = [["Name", draw(title_st)], ["Type", draw(type_st) if kind != "url" else "h"], ["Path", path],
              ["Host", host], ["Port", port]]
    fields = list(draw(st.permutations(fields)))
    if draw(st.booleans()):
        fields.insert(draw(st.integers(0, len(fields) - 1)), ["Numb", str(draw(numb_st))])
    if draw(st.booleans()):
        fields.insert(draw(st.integers(0, len(fields))), ["Abstract", draw(st.lists(abs_line, min_size=1, max_size=3))])
    return {"new": True, "fields": fields, "comment": draw(st.booleans())}


@st.composite
def _case(draw):
    n = draw(st.integers(1, 6))
    from pgv import gen as _gen
    import re as _re
    # (names the shipped ignore pattern keeps out of listings - lib, bin, etc, dev - are C07's subject)
    kids = draw(st.lists(st.tuples(base_st, st.sampled_from(EXTS + ["/"])).filter(
        lambda t: not _re.search(_gen.SHIPPED_IGNORE, "/" + t[0] + (t[1] if t[1] != "/" else ""))),
        min_size=n, max_size=n, unique_by=lambda t: t[0]))
    children = []
    for b, ext in kids:
        if ext == "/":
            children.append({"name": b, "isdir": True, "title": None,
                             "abstract": draw(st.one_of(st.none(), st.lists(abs_line, min_size=1, max_size=2)))})
        else:
            children.append({"name": b + ext, "isdir": False,
                             "title": draw(title_st) if ext == ".html" else None,
                             "abstract": draw(st.one_of(st.none(), st.none(), st.lists(abs_line, min_size=1, max_size=2)))})
    names = [c["name"] for c in children]
    depth = draw(st.sampled_from([0, 1]))
    overridable = list(names)
    linkfiles = []
    for lf in draw(st.lists(st.sampled_from([".names", ".Links", ".link"]), max_size=3, unique=True)):
        blocks = []
        for _ in range(draw(st.integers(0, 4))):
            if overridable and draw(st.integers(0, 2)) == 0:
                target = draw(st.sampled_from(overridable))
                overridable.remove(target)
                fields = list(draw(_override_fields()))
                pos = draw(st.integers(0, len(fields)))
                fields.insert(pos, ["Path", draw(st.sampled_from(["./", "./", "~/"])) + target])
                blocks.append({"new": False, "fields": fields, "comment": draw(st.booleans())})
            else:
                blocks.append(draw(_new_block((("/top" if depth else "/"), names))))
        # how the blocks are laid out in the file: one or several blank lines between them, a blank line or a header comment first
        layout = [draw(st.sampled_from(["", "", "\n", "# link file\n\n", "\n\n# about\n\n"])), draw(st.sampled_from(["\n", "\n", "\n\n", "\n\n\n", "\n \n"]))]
        linkfiles.append([lf, blocks, layout])
    caps = []
    linked = {f[1][2:] for lfe in linkfiles for b in lfe[1] if not b["new"] for f in b["fields"] if f[0] == "Path"}
    for target in draw(st.lists(st.sampled_from(names), max_size=2, unique=True)):
        # an entry hidden by its .cap file is not listed any more: a link-file override of it has no documented meaning
        # what follows the block in the .cap file (only its first block counts): nothing, blank lines, a comment, another block
        tail = draw(st.sampled_from(["", "", "\n", "\n\n", "# a comment at the end\n", "\n# comment\n", "\nName=second block\nNumb=9\n"]))
        caps.append([target, list(draw(_override_fields(allow_hide=target not in linked))), tail])
    # dot files the ignore pattern excludes (an editor's backup of a link file, something in the '.cache' namespace): the
    # configuration file documents that they are not scanned for links, whatever they contain
    decoys = draw(st.lists(st.sampled_from([".names~", ".Links~", ".cache-names", ".link~"]), max_size=2, unique=True))
    return {"children": children, "linkfiles": linkfiles, "caps": caps, "decoys": decoys,
            "extstrip": draw(st.sampled_from(["none", "nonencoded", "full"])), "depth": depth}


def strategy(tier):
    return _case()


def examples(tier):
    return 6000 if tier == "quick" else 100000


def _block_text(b):
    lines = []
    # a comment line somewhere before the Path= line (UMN gopherd ends a block at a comment that follows the path;
    # the manual is silent, so that position is not generated)
    ppos = [i for i, (f, _) in enumerate(b["fields"]) if f == "Path"]
    cpos = (len(b["fields"]) * 7 // 11) % (ppos[0] + 1) if (b.get("comment") and ppos) else (0 if b.get("comment") else None)
    for i, (f, v) in enumerate(b["fields"]):
        if cpos == i:
            lines.append("# a comment")
        if f == "Abstract":
            lines.append("Abstract=" + "\\\n".join(v))
        else:
            lines.append("%s=%s" % (f, v))
    return "\n".join(lines) + "\n"


def _build(case):
    pre = "top/" if case["depth"] else ""
    dsel = "/top" if case["depth"] else "/"
    spec = []
    if case["depth"]:
        spec.append(["top", "d", None])
    for c in case["children"]:
        if c["isdir"]:
            spec.append([pre + c["name"], "d", None])
            spec.append([pre + c["name"] + "/inner.txt", "f", "x\n"])
            if c["abstract"]:
                spec.append([pre + c["name"] + "/.abstract", "f", "".join(l + "\n" for l in c["abstract"])])
        else:
            body = "data\n"
            if c["title"]:
                body = "<html><head><title>%s</title></head><body></body></html>\n" % c["title"]
            spec.append([pre + c["name"], "f", body])
            if c["abstract"]:
                spec.append([pre + c["name"] + ".abstract", "f", "".join(l + "\n" for l in c["abstract"])])
    linktexts = {}
    for lfe in case["linkfiles"]:
        lf, blocks = lfe[0], lfe[1]
        head, sep = lfe[2] if len(lfe) > 2 else ("", "\n")
        text = head + sep.join(_block_text(b) for b in blocks)
        linktexts[lf] = text
        spec.append([pre + lf, "f", text])
    for dn in case.get("decoys", []):
        kids = [c["name"] for c in case["children"]]
        text = "Name=Retired mirror (decoy)\nType=1\nPath=/old\nHost=old.example\nPort=70\n"
        if kids:
            text = "Path=./%s\nName=DRAFT title (decoy)\nNumb=5\n\n" % kids[0] + text + "\nType=X\nPath=./%s\n" % kids[-1]
        spec.append([pre + dn, "f", text])
    captexts = {}
    for cap in case["caps"]:
        target, fields = cap[0], cap[1]
        text = _block_text({"fields": fields}) + (cap[2] if len(cap) > 2 else "")
        captexts[target] = text
        spec.append([pre + ".cap/" + target, "f", text])
    return spec, dsel, linktexts, captexts


def _render_key(e):
    host = e["host"] if e["host"] is not None else clients.HOST.decode()
    port = e["port"] if e["port"] is not None else clients.PORT
    abstract = tuple(e["abstract"].split("\n")) if e["abstract"] else ()
    return (e["type"], e["name"], e["selector"], host, port, bool(e["plus"]), abstract)


def check_case(case, ctx):
    spec, dsel, linktexts, captexts = _build(case)
    d, root = world.build(spec)
    try:
        cfg = drive.make_config(root, "shipped", abstract_entries="always", abstract_headers="off",
                                **{"handlers.dir.DirHandler::cachetime": "0",
                                   "handlers.UMN.UMNDirHandler::extstrip": case["extstrip"]})
        ignorepatt = cfg.get("handlers.dir.DirHandler", "ignorepatt")
        children = [{"name": c["name"], "isdir": c["isdir"], "title": c["title"],
                     "abstract": "\n".join(c["abstract"]) if c["abstract"] else None} for c in case["children"]]
        want, hidden = L.umn_listing(cfg, dsel, children, [linktexts[k] for k in linktexts], captexts,
                                     case["extstrip"], ignorepatt)
        r = drive.serve(cfg, clients.encode("gopher", world.b(dsel)))
        nov = sum(1 for lfe in case["linkfiles"] for b in lfe[1] if not b["new"]) + len(case["caps"])
        nnew = sum(1 for lfe in case["linkfiles"] for b in lfe[1] if b["new"])
        nums = {L.group_of(e) for e in want}
        if (nov and nnew) or hidden or len(nums) > 1:
            ctx.nontriv()
        ctx.label("extstrip:" + case["extstrip"], "overrides:%d" % min(nov, 3), "newlinks:%d" % min(nnew, 4),
                  "hides:%d" % len(hidden), "sign-groups:%d" % len(nums))
        ctx.sample(cls="%s%d%d" % (case["extstrip"], min(nov, 1), min(nnew, 1)))
        if r.escaped is not None or r.exception_classes():
            return [Fail("listing-error:%s" % (r.handled_signatures() or [drive.exc_signature(r.escaped) if r.escaped else "?"])[0],
                         "listing of %r raised: %r" % (dsel, r.logs[-1:]))]
        pr = clients.parse_response("gopher", r.response, expect_menu=True)
        if not pr.ok or pr.problems:
            return [Fail("listing-failed", "listing of %r failed: %r %r" % (dsel, pr.problems, r.response[:200]))]
        # group abstract info lines with the preceding entry
        items = []
        for line in pr.body.split(b"\r\n"):
            if not line:
                continue
            f = line[1:].split(b"\t")
            typ = chr(line[0])
            if typ == "i" and len(f) >= 4 and f[1] == b"fake" and f[2] == b"(NULL)":
                if items:
                    items[-1][6].append(f[0].decode("utf-8", "surrogateescape"))
                continue
            items.append([typ, f[0].decode("utf-8", "surrogateescape"), f[1].decode("utf-8", "surrogateescape"),
                          f[2].decode(), int(f[3]), len(f) > 4 and f[4] == b"+", []])
        got = [(i[0], i[1], i[2], i[3], i[4], i[5], tuple(i[6])) for i in items]
        wantk = [_render_key(e) for e in want]
        fails = []
        missing = [k for k in wantk if wantk.count(k) > got.count(k)]
        extra = [k for k in got if got.count(k) > wantk.count(k)]
        if missing or extra:
            fails.append(Fail("entries-differ:" + _classify(missing, extra, hidden, case),
                              "listing of %r: manual says %r, server shows %r" % (dsel, missing[:2], extra[:2]),
                              {"response": world.u(r.response[:800])}))
        else:
            # order: attach model numbers to listed entries
            pool = {}
            for e in want:
                pool.setdefault(_render_key(e), []).append(e)
            listed = []
            ambiguous = {k for k, es in pool.items() if len({(x["num"] or 0) for x in es}) > 1}
            for k in got:
                if k in ambiguous:
                    continue  # identical lines with different numbers cannot be told apart in the listing
                e = pool[k].pop()
                listed.append({"name": e["name"], "num": e["num"] or 0})
            ov = [o for o in L.order_violations(listed)
                  if not (listed[o[0]]["name"] == listed[o[0] + 1]["name"] and listed[o[0]]["num"] == listed[o[0] + 1]["num"])]
            if ov:
                fails.append(Fail("order:" + ov[0][1].split(":")[0].replace(" ", "-"), "listing of %r: %s" % (dsel, ov[0][1]),
                                  {"response": world.u(r.response[:800])}))
        return fails
    finally:
        world.rmtree(d)


def _classify(missing, extra, hidden, case):
    """coarse root-cause tag for the signature"""
    ms = {k[2]: k for k in missing}
    for k in extra:
        m = ms.get(k[2])
        if m is None:
            return "extra-entry" + (":type-" + k[0] if k[0] in "X-" else "")
        diffs = [n for n, a, b_ in zip(("type", "name", "selector", "host", "port", "plus", "abstract"), m, k) if a != b_]
        return "field-" + "+".join(diffs)
    return "missing-entry"
