"""C04 - Documents are delivered byte-for-byte with truthful length and type."""
from __future__ import annotations

import bz2
import gzip
import html
import random
import re

from hypothesis import strategies as st

from pgv import clients, drive, gen, world
from pgv.core import Fail
from pgv.model import mime

ID = "C04"
LEVEL = "exploration"
RULE = ("One generated file (content kind x size around k*4096 / 0 / 1 / large x hostile or tame name x extension, "
        "in a real directory or inside a ZIP, shipped or full handler list) requested through every document form "
        "(Gopher, Gopher+ '+' and '!', HTTP GET/HEAD, WAP, Gemini, Spartan, TLS variants). Oracles: body == file bytes "
        "(== decompressed bytes where the full list's decompressor claims the name; WAP text/plain inverted line by "
        "line); '+N' == len(body); HEAD == GET headers, no body; advertised type == reference MIME model. A live tier (which also fetches eight 1 MiB files at once "
        "with slow readers) "
        "fetches files of 0 B .. 1 MiB from real threading / forking servers over plaintext and real TLS sockets. "
        "Non-trivial: size >= 4096, or binary content, or a name outside [A-Za-z0-9._-]; distinct by case hash.")
ASSUMPTIONS = [
    "the stdlib mimetypes.MimeTypes class (private instance, configured files and encodings) is the trusted reading of "
    "'the configured MIME tables'",
    "WAP text-to-WML is compared line by line modulo trailing white space (Unicode notion, incl. 0x1c-0x1f)",
    "files whose names the full list's decompressor claims (.gz/.bz2/.Z) are valid archives; files named *.tal (TAL "
    "templates under the full list) are checked for length/HEAD consistency only, their body is C17/C18's subject",
]

FORMS = ["gopher", "gophers", "gplus", "gpluss", "gbang", "http", "https", "head", "wap", "waphdr", "gemini", "spartan"]
EXTS = ["", ".txt", ".html", ".gif", ".jpg", ".pdf", ".c", ".xyz", ".tar", ".tar.gz", ".tgz", ".gz", ".txt.gz", ".bz2",
        ".txt.bz2", ".html.tal", ".tal", ".TXT", ".unknownext", ".a.b.c", ".gmi", ".mp3", ".zip.txt", ".txt.", ".md", ".pict", ".pct", ".rtf"]
SIZES = [0, 1, 2, 100, 4095, 4096, 4097, 8191, 8192, 8193, 12288, 16383, 16384, 16385, 20479, 20480, 20481]
CKINDS = ["text", "textblanks", "allbytes", "crlf", "badutf8", "zeros", "nonl", "looks-like"]
# documents whose first bytes resemble what a content-sniffing handler looks for (an mbox separator, a ZIP signature, an
# HTML title, a shebang, a gophermap line) without being one
LOOKS_LIKE = [b"From the desk of the editor\nDear reader,\n", b"From \n", b"From me to you, with love\n\nbody\n",
              b"From: a@b\nSubject: not a mailbox\n\n", b"PK\x03\x04 not a zip at all\n", b"PK\x05\x06", b"<html><title>not html",
              b"#!/bin/sh\necho not executable\n", b"1menu\t/sel\thost\t70\n", b"\x1f\x8b\x08 not gzip", b"%PDF-1.4 text\n"]


def _content(ckind, size, seed):
    rnd = random.Random(seed)
    if size == 0:
        return b""
    if ckind == "looks-like":
        head = LOOKS_LIKE[seed % len(LOOKS_LIKE)]
        return (head + b"x" * size)[:max(size, len(head))]
    if ckind == "allbytes":
        base = bytes(range(256))
        return (base * (size // 256 + 1))[:size]
    if ckind == "zeros":
        return b"\0" * size
    if ckind == "badutf8":
        alpha = [b"\xff", b"\xfe", b"\xc3", b"a", b"\xe2\x82", b"\n", b"\xa0", b"z"]
        return b"".join(rnd.choice(alpha) for _ in range(size))[:size]
    if ckind == "crlf":
        alpha = [b"\r\n", b"\n", b"\r", b"line", b" ", b"\n\r"]
        return b"".join(rnd.choice(alpha) for _ in range(size))[:size]
    words = [b"alpha", b"<b>", b"&amp;", b"x < y", b"\"q\"", b"'", b"$(sr0)", b"caf\xc3\xa9", b"end."]
    out = bytearray()
    while len(out) < size:
        n = rnd.randint(0, 6)
        line = b" ".join(rnd.choice(words) for _ in range(n))
        if ckind == "textblanks":
            line += rnd.choice([b"", b" ", b"  \t", b"\r", b" \x0b"])
            if rnd.random() < 0.2:
                line = b""
        out += line + b"\n"
    out = bytes(out[:size])
    if ckind == "nonl":
        out = out.rstrip(b"\n") or b"x"
    return out


@st.composite
def _case(draw):
    # (one hostile name in four may hold TAB / CR / LF: such a file is requested through the URL-based forms only)
    base = draw(st.one_of(gen.tame_base, gen.hostile_name(gopher_ok=True, max_size=6), gen.hostile_name(gopher_ok=True, max_size=6),
                          gen.hostile_name(gopher_ok=True, max_size=6), gen.hostile_name(gopher_ok=False, max_size=6)))
    if draw(st.integers(0, 11)) == 0:
        # a name in the 'URL:' namespace: listings render such top-level names as links, but the file itself is a document
        # like any other when it is requested (a name cannot contain '://', so it is never a real URL: link)
        base = "URL:" + base
    ext = draw(st.sampled_from(EXTS))
    name = base + ext
    size = draw(st.one_of(st.sampled_from(SIZES), st.integers(0, 300)))
    return {"name": name, "ckind": draw(st.sampled_from(CKINDS)), "size": size, "seed": draw(st.integers(0, 10 ** 6)),
            "inzip": draw(st.booleans()), "full": draw(st.booleans()),
            # at the top, one level down, or two levels down in directories with long non-ASCII names (every such byte is
            # three characters of a URL: the request line of a URL-based protocol passes a kilobyte)
            "sub": draw(st.sampled_from([False, False, False, True, True, "long"])),
            # the administrator's 'encoding' option in its documented "override the default entirely" form: only what it lists
            # is an encoding then
            "enc": draw(st.sampled_from([None, None, None, "minimal"]))}


def strategy(tier):
    if tier == "thorough":
        big = st.sampled_from([65535, 65536, 65537, 262144, 1048575, 1048576, 1048577])

        @st.composite
        def _big(draw):
            c = draw(_case())
            if draw(st.integers(0, 9)) == 0:
                c["size"] = draw(big)
            return c
        return _big().filter(_ok)
    return _case().filter(_ok)


def _ok(c):
    # (the archive flavour exists with the full handler list only: otherwise the file sits in the real directory)
    n = c["name"][4:] if c["name"].startswith("URL:") else c["name"]
    return gen.servable_name(n, toplevel=not c["sub"] and not (c["inzip"] and c["full"]), full=c["full"])


def examples(tier):
    return 5000 if tier == "quick" else 100000


_DECOMP = {"gzip": gzip, "bzip2": bz2}


def _wap_invert(body):
    pre = (b'<?xml version="1.0"?>\n<!DOCTYPE wml PUBLIC "-//WAPFORUM//DTD WML 1.1//EN"\n'
           b'"http://www.wapforum.org/DTD/wml_1.1.xml">\n<wml>\n'
           b'<card id="index" title="Text File" newcontext="true">\n<p>\n')
    suf = b"</p>\n</card>\n</wml>\n"
    if not (body.startswith(pre) and body.endswith(suf)):
        return None
    mid = body[len(pre):len(body) - len(suf)]
    mid = mid.replace(b"</p>\n<p>", b"\n")
    if mid == b"":
        return []
    if not mid.endswith(b"\n"):
        return None
    lines = mid[:-1].split(b"\n")
    return [html.unescape(l.decode("utf-8", "surrogateescape")).encode("utf-8", "surrogateescape") for l in lines]


def _file_lines_rstripped(data):
    if data == b"":
        return []
    lines = data.split(b"\n")
    if lines[-1] == b"":
        lines.pop()
    # trailing blanks = trailing characters that are white space (Unicode notion, which includes the ASCII
    # information separators 0x1c-0x1f): a line-oriented conversion cannot be asked to keep them
    return [l.decode("utf-8", "surrogateescape").rstrip().encode("utf-8", "surrogateescape") for l in lines]


LIVE_SIZES = [0, 1, 4095, 4096, 4097, 65535, 65536, 65537, 200000, 1048576]
LIVE_FORMS = ["gopher", "gophers", "gplus", "gpluss", "http", "https", "gemini", "spartan"]


def enumerate_cases(tier, seed):
    """live tier: real sockets and real TLS (what the in-process driver cannot see, e.g. descriptor-level shortcuts)"""
    yield {"mode": "live", "servertype": "ThreadingTCPServer"}
    yield {"mode": "live", "servertype": "ForkingTCPServer"}
    # the same with the server logging to its standard output through a strictly encoding stream (an ordinary UTF-8 locale)
    yield {"mode": "live", "servertype": "ThreadingTCPServer", "log": "file-strict"}


def _check_live(case, ctx):
    import os
    from pgv import live
    base = world.fresh_dir("c04live")
    root = os.path.join(base, "root")
    os.mkdir(root)
    files = {}
    for sz in LIVE_SIZES:
        files["f%d.bin" % sz] = _content("allbytes", sz, sz)
        files["t%d.txt" % sz] = _content("text", sz, sz)
    # names that are not UTF-8 (they travel through selector, log line and reply alike)
    files["caf\xe9 \xff.txt"] = _content("text", 700, 700)
    files["\xae.bin"] = _content("allbytes", 5000, 5000)
    world.materialise([[n, "f", world.u(c)] for n, c in files.items()], root)
    srv = None
    fails = []
    try:
        conf = live.write_conf(os.path.join(base, "s.conf"), root, "full", case["servertype"], cachetime=0)
        if case.get("log") == "file-strict":
            import configparser
            cp = configparser.ConfigParser()
            cp.read(conf)
            cp.set("logger", "logmethod", "file")
            with open(conf, "w") as f:
                cp.write(f)
            srv = live.Server(conf, capture_log=True, env={"PYTHONIOENCODING": "utf-8:strict"})
        else:
            srv = live.Server(conf)
        for n, data in sorted(files.items()):
            for form in LIVE_FORMS:
                tls, fam = clients.FORMS[form]
                try:
                    got = live.request(srv.port, clients.encode(form, b"/" + world.b(n)), tls, timeout=30)
                except Exception as e:
                    got = e
                ctx.evaluations += 1
                ctx.count("live_requests")
                if len(data) >= 4096:
                    ctx.nontriv(("live", case["servertype"], n, form))
                if isinstance(got, Exception):
                    fails.append(Fail("live-failed:%s:%s" % (fam, "tls" if tls else "plain"), "live %s request for /%s failed: %r" % (form, n, got)))
                    continue
                pr = clients.parse_response(form, got, expect_menu=False)
                if not pr.ok or pr.body != data or (pr.length is not None and pr.length != len(pr.body)):
                    fails.append(Fail("live-body:%s:%s" % (fam, "tls" if tls else "plain"),
                                      "over a real %s socket the %s body of /%s (%d bytes) arrives as %d bytes%s" % (
                                          "TLS" if tls else "plaintext", form, n, len(data), len(pr.body),
                                          "" if pr.ok else " (not a success reply: %r)" % got[:60])))
        fails += _overlapping_downloads(srv, root, case, ctx)
        fails += _late_headers(srv, root, case, ctx)
        ctx.label("live:" + case["servertype"])
        ctx.sample({"live": case["servertype"], "sizes": LIVE_SIZES, "forms": LIVE_FORMS}, cls="live")
        return _dedup(fails)
    finally:
        if srv is not None:
            srv.stop()
        world.rmtree(base)


def _late_headers(srv, root, case, ctx):
    """An HTTP client whose header block arrives in a later segment than its request line (0.3 s later) and that starts
    reading only after a second: whatever the server does with the headers, every byte of a 16 MiB document arrives (bytes
    of the request left unread when the server closes would turn the close into a reset that discards unsent data)."""
    import os
    import socket
    import struct
    import time
    from pgv import live
    data = b"".join(struct.pack("<I", i) for i in range(4 * 1024 * 1024))
    with open(os.path.join(root, "late16.bin"), "wb") as f:
        f.write(data)
    fails = []
    for form, path in (("http", b"/late16.bin"), ("http", b"/wap/late16.bin"), ("https", b"/late16.bin")):
        tls = clients.FORMS[form][0]
        got = None
        try:
            s = socket.socket()
            s.settimeout(60)
            s.connect(("127.0.0.1", srv.port))
            if tls:
                s = live.client_ctx().wrap_socket(s, server_hostname="gopher.example")
            s.sendall(b"GET " + path + b" HTTP/1.0\r\n")
            time.sleep(0.3)
            s.sendall(b"Host: gopher.example\r\nUser-Agent: late\r\nAccept: */*\r\nX-Padding: " + b"x" * 600 + b"\r\n\r\n")
            time.sleep(1.0)
            chunks = []
            while True:
                b = s.recv(65536)
                if not b:
                    break
                chunks.append(b)
            got = b"".join(chunks)
        except Exception as e:  # noqa
            got = (b"".join(chunks) if "chunks" in dir() else b"", e)
        ctx.evaluations += 1
        ctx.count("late_header_requests")
        ctx.nontriv(("late-headers", case["servertype"], form, path))
        if isinstance(got, tuple):
            fails.append(Fail("late-headers:failed:%s" % ("tls" if tls else "plain"),
                              "the header block arrives 0.3 s after the request line, the client reads after 1 s: the %s download of %s (16 MiB) "
                              "breaks off after %d bytes with %r" % (form, path.decode(), len(got[0]), got[1])))
            continue
        body = got.split(b"\r\n\r\n", 1)[1] if b"\r\n\r\n" in got else b""
        if body != data:
            fails.append(Fail("late-headers:body:%s" % ("tls" if tls else "plain"),
                              "the header block arrives 0.3 s after the request line, the client reads after 1 s: the %s download of %s delivers "
                              "%d of %d bytes" % (form, path.decode(), len(body), len(data))))
    return fails


def _overlapping_downloads(srv, root, case, ctx):
    """Eight different 1 MiB documents fetched at the same time by clients that read slowly (small receive buffer, 2 KiB
    reads): the server's writers block and interleave; every client must still get exactly its own file."""
    import os
    import socket
    import struct
    import threading
    import time
    from pgv import live
    n = 8
    datas = {}
    for k in range(n):
        # every 4-byte word is unique to (file, position)
        datas["big%d.bin" % k] = b"".join(struct.pack("<I", (k << 24) | i) for i in range(262144))
        with open(os.path.join(root, "big%d.bin" % k), "wb") as f:
            f.write(datas["big%d.bin" % k])
    forms = ["gopher", "http", "gophers", "gplus", "gemini", "gopher", "https", "spartan"]
    out = [None] * n
    barrier = threading.Barrier(n)

    def fetch(k):
        form = forms[k]
        tls, fam = clients.FORMS[form]
        try:
            s = socket.socket()
            s.setsockopt(socket.SOL_SOCKET, socket.SO_RCVBUF, 4096)
            s.settimeout(60)
            s.connect(("127.0.0.1", srv.port))
            if tls:
                s = live.client_ctx().wrap_socket(s, server_hostname="gopher.example")
            barrier.wait(timeout=30)
            s.sendall(clients.encode(form, b"/big%d.bin" % k))
            chunks = []
            i = 0
            while True:
                b = s.recv(2048)
                if not b:
                    break
                chunks.append(b)
                i += 1
                if i % 8 == 0:
                    time.sleep(0.0004)
            s.close()
            out[k] = b"".join(chunks)
        except Exception as e:  # noqa
            out[k] = e
    ths = [threading.Thread(target=fetch, args=(k,), daemon=True) for k in range(n)]
    for t in ths:
        t.start()
    for t in ths:
        t.join(120)
    fails = []
    for k in range(n):
        form = forms[k]
        tls, fam = clients.FORMS[form]
        ctx.evaluations += 1
        ctx.count("live_overlapping_downloads")
        ctx.nontriv(("live-overlap", case["servertype"], k))
        got = out[k]
        if not isinstance(got, bytes):
            fails.append(Fail("live-overlap-failed:%s" % fam, "overlapping %s download of /big%d.bin failed: %r" % (form, k, got)))
            continue
        pr = clients.parse_response(form, got, expect_menu=False)
        want = datas["big%d.bin" % k]
        if not pr.ok or pr.body != want:
            i = next((j for j, (a, b_) in enumerate(zip(pr.body, want)) if a != b_), min(len(pr.body), len(want)))
            word = pr.body[i - i % 4:i - i % 4 + 4]
            src = struct.unpack("<I", word)[0] >> 24 if len(word) == 4 else None
            fails.append(Fail("live-overlap-body:%s" % case["servertype"],
                              "8 downloads at once (%s): the %s body of /big%d.bin differs from the file at byte %d of %d "
                              "(%d bytes received; the bytes there belong to file %s)" % (
                                  case["servertype"], form, k, i, len(want), len(pr.body), src)))
    return fails


def check_case(case, ctx):
    if case.get("mode") == "live":
        return _check_live(case, ctx)
    if case.get("mode") != "live" and not _ok(case):
        ctx.label("outside-the-domain")  # e.g. a replayed case with a top-level name in a reserved namespace
        return []
    name, full, inzip = case["name"], case["full"], case["inzip"] and case["full"]
    data = _content(case["ckind"], case["size"], case["seed"])
    over0 = {"pygopherd::encoding": "[('.bz2', 'bzip2'), ('.tal', 'tal.TALFileHandler')]"} if case.get("enc") == "minimal" else {}
    cfg0 = drive.make_config("/x", "full" if full else "shipped", **over0)
    t, enc = mime.guess(cfg0, name)
    decomp = None
    istal = full and name.endswith(".tal")
    if full and enc in ("gzip", "bzip2") and t:
        # the full list's CompressedFileHandler claims it (needs a real encoded type): store a valid archive
        decomp = enc
        stored = _DECOMP[enc].compress(data)
    elif full and enc == "compress":
        # no compressor for .Z offline: do not generate the decompress case
        stored = data
        enc_skip = True
    else:
        stored = data
    if full and enc == "compress" and t:
        return []
    if istal:
        stored = b'<html><body><p tal:content="selector">static %d</p><i tal:condition="nothing">gone</i></body></html>\n' % case["size"]
    prefix = "sub/" if case["sub"] else ""
    if case["sub"] == "long":
        prefix = world.u(("\u8cc7\u6599\u5ba4" * 20).encode("utf-8")) + "/" + world.u(("\u6587\u66f8\u96c6" * 20).encode("utf-8")) + "/"
        ctx.label("long-non-ascii-path")
    if inzip:
        spec = [[prefix + "arch.zip", "zip", {"members": [["in/" + name, "f", world.u(stored), {}],
                                                         ["other.txt", "f", "o\n", {}]]}]]
        sel = "/" + prefix + "arch.zip/in/" + name
    else:
        # (permission bits the server's account can read through all the same: group- or owner-only files)
        mode = (None, None, 0o640, 0o600, 0o604)[case["seed"] % 5]
        spec = [[prefix + name, "f", world.u(stored)] + ([mode] if mode else []), [prefix + "zz-other.txt", "f", "o\n"]]
        if mode:
            ctx.label("mode:%o" % mode)
        sel = "/" + prefix + name
    d, root = world.build(spec)
    fails = []
    try:
        over = {}
        if case.get("enc") == "minimal":
            over["pygopherd::encoding"] = "[('.bz2', 'bzip2'), ('.tal', 'tal.TALFileHandler')]"
            ctx.label("encoding-option:minimal")
        cfg = drive.make_config(root, "full" if full else "shipped", **over)
        want_type = mime.served_type(cfg, name, decompress=bool(decomp))
        if istal:
            want_type = t or cfg.get("GopherEntry", "defaultmimetype")
        expect_body = data if decomp else stored
        nontriv = case["size"] >= 4096 or case["ckind"] in ("allbytes", "badutf8", "zeros") or not gen.is_tame(name)
        if nontriv:
            ctx.nontriv()
        ctx.label("ckind:" + case["ckind"], "size>=4096" if case["size"] >= 4096 else "size<4096",
                  "inzip" if inzip else "realdir", "full" if full else "shipped",
                  "name:tame" if gen.is_tame(name) else "name:hostile",
                  "decompress" if decomp else ("tal" if istal else "plain"))
        ctx.sample({"name": name, "size": case["size"], "ckind": case["ckind"], "inzip": inzip, "full": full},
                   cls=case["ckind"])
        selb = world.b(sel)
        get_headers = {}
        # a URL client may leave RFC 3986 sub-delims, ':' and '@' of a path segment unescaped: second spelling of the path
        lenient = clients.pct(selb, clients._UNRESERVED + b"!$&'()*+,;=:@")
        plan = [(f, None) for f in FORMS]
        if re.search(rb"[\t\r\n]", selb):
            plan = [(f, None) for f in FORMS if clients.FORMS[f][1] not in ("gopher", "gplus", "gdollar", "gbang")]
            ctx.label("name-with-TAB-CR-LF")
        if lenient != clients.pct(selb):
            plan += [(f, lenient) for f in FORMS if clients.FORMS[f][1] not in ("gopher", "gplus", "gdollar", "gbang")]
            ctx.label("lenient-url-spelling")
        for form, raw_path in plan:
            tls, fam = clients.FORMS[form]
            req = clients.encode(form, selb, raw_path=raw_path)
            r = drive.serve(cfg, req, tls=tls, realfd=bool(decomp))
            tag = "%s" % fam + ("~lenient" if raw_path is not None else "")
            if r.escaped is not None or [c for c in r.exception_classes()]:
                fails.append(Fail("error:%s:%s" % (tag, (r.exception_classes() or [drive.exc_signature(r.escaped) if r.escaped else "?"])[0]),
                                  "%s request for %r failed: %s" % (form, sel, r.logs[-1:]),
                                  {"response": world.u(r.response[:200])}))
                continue
            pr = clients.parse_response(form, r.response, expect_menu=False)
            if raw_path is not None:
                form = form + "~lenient"
            if pr.problems or not pr.ok:
                fails.append(Fail("not-served:%s" % tag, "%s request for %r not served: %s %r" % (
                    form, sel, pr.problems, r.response[:120])))
                continue
            body = pr.body
            if fam == "gopher":
                if body != expect_body and not istal:
                    fails.append(_bodyfail(tag, form, sel, body, expect_body))
            elif fam == "gplus":
                if pr.length is not None and pr.length != len(body):
                    fails.append(Fail("gplus-length:%s" % ("decomp" if decomp else "tal" if istal else "plain"),
                                      "Gopher+ announced +%d for %r but %d bytes follow" % (pr.length, sel, len(body))))
                if pr.length is None and not (decomp or istal):
                    fails.append(Fail("gplus-nolength", "Gopher+ sent %s for plain file %r whose size is known" % (pr.status, sel)))
                if body != expect_body and not istal:
                    fails.append(_bodyfail(tag, form, sel, body, expect_body))
            elif fam == "gbang":
                blocks = clients.parse_gplus_dir(body)
                views = [b for it in blocks for b in it["blocks"] if b[0] == b"VIEWS"]
                if len(views) != 1 or len(views[0][2]) != 1:
                    fails.append(Fail("views-missing", "no single +VIEWS line in ! reply for %r: %r" % (sel, body[:200])))
                else:
                    m = re.match(rb"^ ([^ :]+)(?: [^:]*)?:(?: <(\d+)k>)?$", views[0][2][0])
                    if not m:
                        fails.append(Fail("views-malformed", "malformed +VIEWS line %r" % views[0][2][0]))
                    else:
                        if m.group(1).decode() != want_type:
                            fails.append(Fail("type:gbang", "+VIEWS type %r for %r, MIME tables say %r" % (m.group(1), name, want_type)))
                        if m.group(2) is not None and not (decomp or istal):
                            if abs(int(m.group(2)) * 1024 - len(expect_body)) >= 1024:
                                fails.append(Fail("views-size", "+VIEWS <%sk> for a %d byte file" % (m.group(2).decode(), len(expect_body))))
            elif fam in ("http", "head", "wap"):
                ctype = (pr.mime or b"").decode("latin-1")
                hdr = r.response[: r.response.find(b"\r\n\r\n") + 4]
                if fam == "http" and not tls:
                    get_headers["http"] = hdr
                if fam == "head":
                    if pr.body:
                        fails.append(Fail("head-body", "HEAD for %r returned %d body bytes" % (sel, len(pr.body))))
                    if "http" in get_headers and hdr != get_headers["http"]:
                        fails.append(Fail("head-headers", "HEAD headers differ from GET headers for %r: %r vs %r" % (
                            sel, hdr, get_headers["http"])))
                    if ctype != want_type:
                        fails.append(Fail("type:head", "Content-Type %r for %r, MIME tables say %r" % (ctype, name, want_type)))
                elif fam == "wap" and want_type == "text/plain":
                    if ctype != "text/vnd.wap.wml":
                        fails.append(Fail("type:wap", "WAP Content-Type %r for text file %r" % (ctype, name)))
                    elif not istal:
                        inv = _wap_invert(body)
                        want_lines = _file_lines_rstripped(expect_body)
                        if inv is None:
                            fails.append(Fail("wap-frame", "WAP text deck for %r is not the documented frame: %r" % (sel, body[:160])))
                        elif [l.decode("utf-8", "surrogateescape").rstrip().encode("utf-8", "surrogateescape")
                              for l in inv] != want_lines:
                            i = next((k for k, (a, b_) in enumerate(zip(inv, want_lines)) if a != b_), min(len(inv), len(want_lines)))
                            fails.append(Fail("wap-lines", "WAP conversion of %r is not invertible line by line: line %d %r vs %r (%d vs %d lines)" % (
                                sel, i, inv[i:i + 1], want_lines[i:i + 1], len(inv), len(want_lines))))
                else:
                    if ctype != want_type:
                        fails.append(Fail("type:%s" % fam, "Content-Type %r for %r, MIME tables say %r" % (ctype, name, want_type)))
                    if body != expect_body and not istal:
                        fails.append(_bodyfail(tag, form, sel, body, expect_body))
            else:  # gemini / spartan
                ctype = (pr.mime or b"").decode("latin-1")
                if ctype != want_type:
                    fails.append(Fail("type:%s" % fam, "meta %r for %r, MIME tables say %r" % (ctype, name, want_type)))
                if body != expect_body and not istal:
                    fails.append(_bodyfail(tag, form, sel, body, expect_body))
        return _dedup(fails)
    finally:
        world.rmtree(d)


def _bodyfail(tag, form, sel, body, want):
    i = next((k for k, (a, b_) in enumerate(zip(body, want)) if a != b_), min(len(body), len(want)))
    return Fail("body:%s" % tag, "%s body for %r differs from the file at byte %d (%d bytes sent, file has %d)" % (
        form, sel, i, len(body), len(want)), {"sent": world.u(body[max(0, i - 20):i + 40]), "file": world.u(want[max(0, i - 20):i + 40])})


def _dedup(fails):
    seen, out = set(), []
    for f in fails:
        if f.sig not in seen:
            seen.add(f.sig)
            out.append(f)
    return out
