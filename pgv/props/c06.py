"""C06 - The same site is seen through every protocol."""
from __future__ import annotations

import re

from hypothesis import strategies as st

from pgv import clients, drive, gen, sites, world
from pgv.core import Fail
from pgv.model import mime

ID = "C06"
LEVEL = "exploration"
RULE = ("Mode 'listing': a directory (files, sub-dirs, HTML titles, hostile names) decorated through a link file or a "
        "gophermap with remote links, URL: links, search items and abstracts, x abstract_headers/abstract_entries "
        "settings x trailing slash; its normalised entries (kind, display name, target) must be equal, position by "
        "position, in Gopher, Gopher+ (+ and $), HTTP(S), WAP (prefix and header detection), Gemini and Spartan, "
        "info lines included unless abstract_entries=unsupported. Mode 'resolve': every object of a generated "
        "site must resolve to the same kind and MIME type (after each protocol's documented menu mapping) in all "
        "protocols, with and without a trailing slash. Mode 'search': a byte string (no TAB/CR/LF/NUL, no blanks at "
        "the ends, reserved and non-UTF-8 bytes included) submitted through each protocol's own mechanism must "
        "reach the handler chain as the same str (spy on the handler multiplexer) and a script's $SEARCHREQUEST. "
        "Non-trivial: listing with >= 1 non-tame name or metadata-derived entry; search string with a reserved "
        "or non-UTF-8 byte; resolve of a non-tame or virtual selector.")
ASSUMPTIONS = [
    "remote links carry an explicit host; a missing port ('+' / omitted) means this server's port",
    "a search string starting with '+' or '$' or equal to '!' is not sent through the plain-Gopher tab field "
    "(the Gopher+ specification gives that request line another meaning)",
    "informational text does not start with '=>' / '=:' (gemtext link syntax) and names carry no TAB/CR/LF",
    "Gemini/Spartan display names are compared after the documented backslash-replacement of stray bytes",
]

LIST_FORMS = ["gopher", "gophers", "gplus", "gdollar", "http", "https", "wap", "waphdr", "gemini", "spartan"]
RES_FORMS = ["gbang", "http", "https", "wap", "gemini", "spartan"]
SEARCH_FORMS = ["gopher", "gophers", "gplus", "gdollar", "http", "https", "wap", "gemini", "spartan"]

info_text = st.one_of(
    st.text("abcdefg XYZ019.,:;!?&<>'\"()-_+*", max_size=24).map(str.strip),
    st.text("abcdefg XYZ019.,:;!?&<>'\"()-_+*", max_size=24).map(str.strip),
    # lines longer than a terminal row (a renderer may be tempted to fold them), with and without blanks to fold at
    st.sampled_from(["A long line of an abstract that goes on and on, well past the seventy columns some displays have, to the very end",
                     "x" * 120, ("word " * 40).strip()]),
).filter(lambda s: not s.startswith("=>") and not s.startswith("=:"))
label = st.text("abcdefXYZ019 &<>\"'é".replace("é", "\xc3\xa9"), min_size=1, max_size=12).map(str.strip).filter(bool)


@st.composite
def _listing_case(draw):
    n = draw(st.sampled_from([1, 2, 3, 4, 5, 5, 14]))
    files = draw(st.lists(st.tuples(gen.names(toplevel=False), st.sampled_from(["f", "f", "d", "h"])),
                          min_size=n, max_size=n, unique_by=lambda t: t[0] + (".html" if t[1] == "h" else "")))
    style = draw(st.sampled_from(["links", "map", "plain"]))
    extra = []
    for _ in range(draw(st.integers(0, 4))):
        k = draw(st.sampled_from(["remote", "url", "search", "info", "locallink", "portonly"]))
        extra.append({"k": k, "name": draw(label), "host": draw(st.sampled_from(["other.example", "gopher.floodgap.com", "h-2.example.org"])),
                      "port": draw(st.sampled_from([70, 7070, 105, 1])), "type": draw(st.sampled_from(["0", "1", "9", "h", "I", "3", "3", "2", "8", "T", "s", "g", "M", "4", "5", "6"])),
                      "sel": draw(st.sampled_from(["/", "/x", "/a b", "/d/e.txt", "/caf\xc3\xa9", "/q?x=1", "/50%25"])),
                      "url": draw(st.sampled_from(["http://www.example.org/", "https://example.org/a/b?c=d", "ftp://ftp.example.org/pub", "mailto://x@example.org",
                                                     "mailto:x@example.org", "news:comp.infosystems.gopher", "tel:+15551234"])),
                      "text": draw(info_text)})
    abstracts = draw(st.lists(st.tuples(st.integers(0, n - 1), st.lists(info_text.filter(bool), min_size=1, max_size=2)), max_size=2))
    return {"mode": "listing", "files": [list(f) for f in files], "style": style, "extra": extra,
            "abstracts": [[i, l] for i, l in abstracts], "dirabstract": draw(st.one_of(st.none(), info_text.filter(bool))),
            "headers": draw(st.sampled_from(["on", "off"])), "entries": draw(st.sampled_from(["always", "unsupported", "never"])),
            "slash": draw(st.booleans()), "depth": draw(st.sampled_from([0, 1]))}


@st.composite
def _resolve_case(draw):
    full = draw(st.booleans())
    return {"mode": "resolve", "full": full, "site": draw(sites.site(full=full, depth=2, max_items=4, longnames=draw(st.sampled_from([False, False, True])))),
            "pick": draw(st.integers(0, 50)), "slash": draw(st.booleans())}


_SEARCH_OK = [c for c in range(1, 256) if c not in (9, 10, 13)]
search_st = st.one_of(
    st.lists(st.sampled_from([chr(c) for c in _SEARCH_OK]), min_size=1, max_size=12).map("".join),
    # long search strings: 300 - 3000 bytes, plain and of bytes that travel percent-encoded
    st.builds(lambda u, n: (u * n)[:3000], st.sampled_from(["a", "\xe9", "\xc3\xa9", "q r ", "%", "\xe4\xb8\xad"]), st.sampled_from([300, 400, 1100, 3000])),
    st.lists(st.sampled_from(list("ab +&=%?#;/\\:@\"'<>")) | st.sampled_from(["\xff", "\xc3\xa9", "\xc3", "%41", "%ff", "+", "&amp;"]),
             min_size=1, max_size=8).map("".join),
    # strings that begin like a Gopher+ request marker and go on ('!' alone IS the marker; '!x' is a search string)
    st.builds(lambda m, rest: m + rest, st.sampled_from(["!", "!", "!!", "!+", "?", "-", "!$"]),
              st.sampled_from(["urgent", "important notice", "x", "+INFO", "\xe9t\xe9", "1"])),
).filter(lambda s: s == s.strip() and s.encode("latin-1").decode("utf-8", "surrogateescape").strip()
         == s.encode("latin-1").decode("utf-8", "surrogateescape") and s != "")


@st.composite
def _search_case(draw):
    return {"mode": "search", "q": draw(search_st),
            "target": draw(st.sampled_from(["/", "/sub", "/echo.sh", "/file.txt", "/s\xe9arch.sh", "/d\xe9r \xff", "/caf\xc3\xa9 q.sh"]))}


def strategy(tier):
    return st.one_of(_listing_case(), _listing_case(), _resolve_case(), _search_case(), _search_case())


def examples(tier):
    return 3000 if tier == "quick" else 80000


# ------------------------------------------------------------------------------------------------ listing

def _listing_spec(case):
    pre = "d/" if case["depth"] else ""
    dsel = "/d" if case["depth"] else ""
    spec = []
    if case["depth"]:
        spec.append(["d", "d", None])
    fnames = []
    for name, kind in case["files"]:
        if kind == "d":
            spec.append([pre + name, "d", None])
            spec.append([pre + name + "/x.txt", "f", "x\n"])
            fnames.append(name)
        elif kind == "h":
            spec.append([pre + name + ".html", "f", "<html><head><title>Title of %s</title></head></html>\n" % re.sub(r"[<>&]", "", name[:4])])
            fnames.append(name + ".html")
        else:
            spec.append([pre + name, "f", "content\n"])
            fnames.append(name)
    for i, lines in case["abstracts"]:
        # a directory's abstract lives inside it (dir/.abstract), a file's beside it (file.abstract)
        side = "/.abstract" if case["files"][i][1] == "d" else ".abstract"
        spec.append([pre + fnames[i] + side, "f", "".join(l + "\n" for l in lines)])
    if case["dirabstract"]:
        spec.append([pre + ".abstract", "f", case["dirabstract"] + "\n"])
    if case["style"] == "links":
        blocks = []
        for e in case["extra"]:
            if e["k"] == "remote":
                blocks.append("Name=%s\nType=%s\nPath=%s\nHost=%s\nPort=%s\n" % (
                    e["name"], e["type"], e["sel"], e["host"], "+" if e["port"] == 1 else e["port"]))
            elif e["k"] == "portonly":
                # this host, another port
                blocks.append("Name=%s\nType=%s\nPath=%s\nHost=+\nPort=%d\n" % (e["name"], e["type"], e["sel"], e["port"] + 7001))
            elif e["k"] == "url":
                blocks.append("Name=%s\nType=h\nPath=URL:%s\nHost=+\nPort=+\n" % (e["name"], e["url"]))
            elif e["k"] == "search":
                blocks.append("Name=%s\nType=7\nPath=%s\nHost=+\nPort=+\n" % (e["name"], dsel + "/" + fnames[0]))
            elif e["k"] == "locallink":
                blocks.append("Name=%s\nType=0\nPath=%s\nHost=+\nPort=+\n" % (e["name"], dsel + "/" + fnames[-1]))
            elif e["k"] == "info" and e["text"]:
                blocks.append("Name=%s\nType=i\nPath=fake\nHost=(NULL)\nPort=0\n" % e["text"])
        if blocks:
            spec.append([pre + ".links", "f", "\n".join(blocks)])
    elif case["style"] == "map":
        lines = []
        for name in fnames:
            lines.append("0Entry %s\t%s" % (re.sub(r"[\t\r\n]", " ", name).strip() or "x", name))
        for e in case["extra"]:
            if e["k"] == "remote":
                lines.append("%s%s\t%s\t%s\t%s" % (e["type"], e["name"], e["sel"], e["host"], "" if e["port"] == 1 else e["port"]))
            elif e["k"] == "portonly":
                lines.append("%s%s\t%s\t\t%d" % (e["type"], e["name"], e["sel"], e["port"] + 7001))
            elif e["k"] == "url":
                lines.append("h%s\tURL:%s" % (e["name"], e["url"]))
            elif e["k"] == "search":
                lines.append("7%s\t%s" % (e["name"], fnames[0]))
            elif e["k"] == "locallink":
                lines.append("0%s\t%s/%s" % (e["name"], dsel, fnames[-1]))
            elif e["k"] == "info":
                lines.append(e["text"])
        spec.append([pre + "gophermap", "f", "".join(l + "\n" for l in lines)])
    return spec, (dsel or "/")


def _norm_name(fam, name):
    return name


def _key(e, fam):
    t = e["target"]
    if t and t[0] == "remote":
        t = ("remote", t[1], t[2], t[3], t[4])
    return (e["kind"], e["name"], t)


def _ref_key(e, fam):
    """reference (plain Gopher) entry as protocol family `fam` is documented to show it"""
    name = e["name"]
    if fam in ("gemini", "spartan"):
        name = clients.gemini_name(name)
    t = e["target"]
    return (e["kind"], name, t)


def _check_listing(case, ctx):
    spec, dsel = _listing_spec(case)
    d, root = world.build(spec)
    try:
        cfg = drive.make_config(root, "shipped", abstract_headers=case["headers"], abstract_entries=case["entries"],
                                **{"handlers.dir.DirHandler::cachetime": "0"})
        selb = world.b(dsel + ("/" if case["slash"] and dsel != "/" else ""))
        views = {}
        for form in LIST_FORMS:
            tls, fam = clients.FORMS[form]
            r = drive.serve(cfg, clients.encode(form, selb), tls=tls)
            pr = clients.parse_response(form, r.response, expect_menu=True)
            if r.escaped is not None or not pr.ok or pr.problems:
                return [Fail("listing-failed:%s" % fam, "%s listing of %r failed: %r %r" % (form, dsel, pr.problems, r.logs[-1:]))]
            views[form] = clients.parse_listing(form, pr)
        hostile = any(not gen.is_tame(n) for n, _ in case["files"])
        if hostile or case["extra"] or case["abstracts"]:
            ctx.nontriv()
        ctx.label("listing", "style:" + case["style"], "entries:" + case["entries"], "headers:" + case["headers"])
        ctx.sample(cls="listing:" + case["style"])
        ref = views["gopher"]
        fails = []
        # abstracts: where the configuration says so, each file's sidecar lines follow its entry as info lines
        if case["style"] != "map":
            base = dsel if dsel != "/" else ""
            fn = [n + (".html" if k == "h" else "") for n, k in case["files"]]
            abs_by_sel = {}
            for i, lines in case["abstracts"]:
                abs_by_sel[world.b(base + "/" + fn[i])] = [world.b(l) for l in lines]  # later sidecar wins on disk too
            # link-file entries that point at the same selector carry no abstract of their own: leave those out
            for e in case["extra"]:
                if e["k"] == "search":
                    abs_by_sel.pop(world.b(base + "/" + fn[0]), None)
                elif e["k"] == "locallink":
                    abs_by_sel.pop(world.b(base + "/" + fn[-1]), None)
            for form in ("gopher", "gplus", "http", "gemini"):
                fam = clients.FORMS[form][1]
                v = views[form]
                shown = case["entries"] == "always" or (case["entries"] == "unsupported" and fam != "gplus")
                for idx, e in enumerate(v):
                    if e["target"] and e["target"][0] == "local" and e["target"][1] in abs_by_sel and e["kind"] == "link":
                        lines = abs_by_sel[e["target"][1]]
                        nxt = [x["name"] for x in v[idx + 1: idx + 1 + len(lines)] if x["kind"] == "info"]
                        if shown and nxt != lines:
                            fails.append(Fail("abstract-missing:%s:%s" % (fam, case["entries"]),
                                              "%s listing of %r (abstract_entries=%s): abstract %r of %r is not shown after its entry (found %r)" % (
                                                  form, dsel, case["entries"], lines, e["target"][1], nxt)))
                            break
                        ambiguous = any(world.b(x["text"]) in lines for x in case["extra"] if x["k"] == "info")
                        if not shown and nxt == lines and not ambiguous:
                            fails.append(Fail("abstract-shown:%s:%s" % (fam, case["entries"]),
                                              "%s listing of %r (abstract_entries=%s): abstract of %r is rendered although the setting leaves it out" % (
                                                  form, dsel, case["entries"], e["target"][1])))
                            break
        for form in LIST_FORMS[1:]:
            fam = clients.FORMS[form][1]
            got = [_key(e, fam) for e in views[form]]
            want = [_ref_key(e, fam) for e in ref]
            gplus = fam in ("gplus", "gdollar")
            if case["entries"] == "unsupported" and gplus:
                # Gopher+ carries abstracts natively: compare link/search entries and header lines only
                na = len([1 for i, l in case["abstracts"] for _ in l])
                got_l = [k for k in got if k[0] != "info"]
                want_l = [k for k in want if k[0] != "info"]
                if got_l != want_l:
                    fails.append(_diff(form, fam, dsel, got_l, want_l))
                continue
            if got != want:
                fails.append(_diff(form, fam, dsel, got, want))
        return fails
    finally:
        world.rmtree(d)


def _diff(form, fam, dsel, got, want):
    i = next((k for k, (a, b_) in enumerate(zip(got, want)) if a != b_), min(len(got), len(want)))
    g = got[i] if i < len(got) else None
    w = want[i] if i < len(want) else None
    if g is None or w is None:
        what = "count"
    elif g[0] != w[0]:
        what = "kind"
    elif g[1] != w[1]:
        what = "name"
    else:
        what = "target-" + (w[2][0] if w[2] else "none")
    return Fail("listing-differs:%s:%s" % (fam, what),
                "%s view of %r differs from the Gopher view at entry %d: %r vs %r (%d vs %d entries)" % (
                    form, dsel, i, g, w, len(got), len(want)))


# ------------------------------------------------------------------------------------------------ resolve

def _menu_type(fam):
    return {"http": "text/html", "head": "text/html", "wap": "text/vnd.wap.wml", "gemini": "text/gemini",
            "spartan": "text/gemini"}[fam]


def _check_resolve(case, ctx):
    items = case["site"]
    objs = sites.objects(items)
    o = objs[case["pick"] % len(objs)]
    spec = sites.to_spec(items)
    full = case["full"]
    d, root = world.build(spec)
    try:
        cfg = drive.make_config(root, "full" if full else "shipped", **{"handlers.dir.DirHandler::cachetime": "0"})
        sel = o["sel"]
        variants = [sel]
        if o["kind"] == "menu" and "|" not in sel:
            variants.append(sel + "/")
        seen = {}
        fails = []
        if o["kind"] == "menu" and "|" not in sel and sel != "/":
            # the same trailing slash, percent-encoded by a client that escapes every reserved character (URL-based forms)
            variants.append(sel + "%2F")
        for v in variants:
            for form in RES_FORMS:
                tls, fam = clients.FORMS[form]
                if v.endswith("%2F") and v != sel:
                    if fam in ("gopher", "gplus", "gdollar", "gbang"):
                        continue
                    rq = clients.encode(form, world.b(sel), raw_path=clients.pct(world.b(sel)) + b"%2F")
                else:
                    rq = clients.encode(form, world.b(v))
                r = drive.serve(cfg, rq, tls=tls, realfd=full)
                pr = clients.parse_response(form, r.response)
                if r.escaped is not None or not pr.ok or pr.problems:
                    fails.append(Fail("resolve-failed:%s" % fam, "%s cannot resolve %r (%s): %r" % (form, v, o["what"], pr.errmsg or r.response[:80])))
                    continue
                if fam == "gbang":
                    its = clients.parse_gplus_dir(pr.body)
                    vw = [b for it in its for b in it["blocks"] if b[0] == b"VIEWS"]
                    typ = vw[0][2][0].strip().split(b":")[0].split(b" ")[0].decode() if vw and vw[0][2] else None
                    kind = "menu" if typ in ("application/gopher-menu", "application/gopher+-menu") else "doc"
                    norm = "MENU" if kind == "menu" else typ
                else:
                    typ = (pr.mime or b"").decode("latin-1")
                    kind = pr.kind
                    if kind == "menu":
                        norm = "MENU" if typ == _menu_type(fam) else "MENU?" + typ
                    elif fam == "wap" and typ == "text/vnd.wap.wml":
                        norm = "text/plain"
                    else:
                        norm = typ
                seen[(v, form)] = (kind, norm)
        # the same selector with an empty segment in it, and a 'URL:' selector (whose '://' has one too): whether that names
        # anything is one answer, the same through every protocol
        odd = ["/" + sel] if sel != "/" else []
        if sel.count("/") >= 2:
            i = sel.index("/", 1)
            odd.append(sel[:i] + "/" + sel[i:])
        if case["pick"] % 4 == 0:
            odd.append("/URL:http://example.com/some/page")
        for v in odd:
            outcome = {}
            for form in RES_FORMS:
                tls, fam = clients.FORMS[form]
                if fam == "gbang":
                    continue
                r = drive.serve(cfg, clients.encode(form, world.b(v)), tls=tls, realfd=full)
                pr = clients.parse_response(form, r.response)
                outcome[form] = "failed" if r.escaped is not None else ("served" if pr.ok and pr.kind != "error" else "refused")
            ctx.label("resolve:empty-segment:" + "+".join(sorted(set(outcome.values()))))
            if len(set(outcome.values())) > 1 and not fails:
                fails.append(Fail("resolve-differs:empty-segment", "%r is answered differently across protocols: %r" % (v, outcome)))
        kinds = {k for k, _ in seen.values()}
        norms = {n for _, n in seen.values()}
        if not gen.is_tame(sel.replace("/", "")) or "|" in sel:
            ctx.nontriv()
        ctx.label("resolve", "resolve:" + o["what"].split(":")[0])
        ctx.sample({"sel": sel, "what": o["what"], "seen": {"%s %s" % k: list(v) for k, v in seen.items()}}, cls="resolve")
        if not fails and (len(kinds) > 1 or len(norms) > 1):
            fails.append(Fail("resolve-differs:%s" % ("kind" if len(kinds) > 1 else "type"),
                              "%r (%s) resolves differently across protocols / slash variants: %r" % (
                                  sel, o["what"], {"%s %s" % k: v for k, v in seen.items()})))
        if not fails and (o["kind"] == "menu") != (kinds == {"menu"}):
            fails.append(Fail("resolve-kind:%s" % o["what"].split(":")[0], "%r (%s) should be a %s, resolved as %r" % (sel, o["what"], o["kind"], kinds)))
        return fails
    finally:
        world.rmtree(d)


# ------------------------------------------------------------------------------------------------ search

ECHO = "#!/bin/sh\nprintf '%s' \"$SEARCHREQUEST\"\n"


def _check_search(case, ctx):
    from pygopherd.handlers import HandlerMultiplexer
    q = world.b(case["q"])
    want = q.decode("utf-8", "surrogateescape")
    spec = [["sub/x.txt", "f", "x\n"], ["file.txt", "f", "f\n"], ["echo.sh", "f", ECHO, 0o755],
            # search targets whose own selectors hold non-UTF-8 bytes, blanks, valid UTF-8
            ["s\xe9arch.sh", "f", ECHO, 0o755], ["d\xe9r \xff/x.txt", "f", "x\n"], ["caf\xc3\xa9 q.sh", "f", ECHO, 0o755]]
    d, root = world.build(spec)
    try:
        cfg = drive.make_config(root, "full", **{"handlers.dir.DirHandler::cachetime": "0"})
        target = case["target"]
        got = {}
        outs = {}
        orig = HandlerMultiplexer.getHandler
        for form in SEARCH_FORMS + ["gemini-prompt"]:
            flow = form == "gemini-prompt"
            if flow:
                form = "gemini"
            tls, fam = clients.FORMS[form]
            if fam == "gopher" and (q[:1] in (b"+", b"$") or q == b"!"):
                continue  # 'sel TAB +...' IS a Gopher+ request: plain Gopher cannot express this search string
            seen = []
            request = clients.encode(form, world.b(target), search=q)
            if flow:
                # the way a Gemini client really submits a search: the listing's link goes to the prompt selector, the
                # client is asked for input (10), sends the same URL with the query, is redirected (30) and follows
                prompt = b"gemini://" + clients.HOST + b"/GEMINI-QUERY" + clients.pct(world.b(target))
                r1 = drive.serve(cfg, prompt + b"\r\n", tls=True, realfd=True)
                qenc = request.split(b"?", 1)[1].rstrip(b"\r\n") if b"?" in request else b""
                r2 = drive.serve(cfg, prompt + b"?" + qenc + b"\r\n", tls=True, realfd=True)
                m = re.match(rb"^30 ([^\r\n]*)\r\n$", r2.response)
                if not r1.response.startswith(b"10 ") or not m:
                    got["gemini-prompt"] = "<prompt flow broken: %r then %r>" % (r1.response[:40], r2.response[:60])
                    continue
                loc = m.group(1)
                request = (loc if loc.startswith(b"gemini://") else b"gemini://" + clients.HOST + loc) + b"\r\n"
                form = "gemini-prompt"

            def spy(selector, searchrequest, protocol, config, *a, **k):
                seen.append(searchrequest)
                return orig(selector, searchrequest, protocol, config, *a, **k)
            HandlerMultiplexer.getHandler = spy
            try:
                # the request arrives in TCP segments of 7 bytes on a connection the client keeps open
                r = drive.serve(cfg, request, tls=tls, realfd=True, segment=7, open_conn=True)
            finally:
                HandlerMultiplexer.getHandler = orig
            got[form] = seen[0] if seen else "<no handler lookup>"
            if target.endswith(".sh"):
                pr = clients.parse_response("gemini" if form == "gemini-prompt" else form, r.response, expect_menu=False)
                outs[form] = pr.body if pr.ok else b"<not served>"
        special = any(c in q for c in b"+&=%?#;") or any(c >= 0x80 for c in q)
        if special:
            ctx.nontriv()
        ctx.label("search", "search:special" if special else "search:plain", "search-target:" + target)
        ctx.sample({"q": case["q"], "target": target}, cls="search")
        fails = []
        for form, g in got.items():
            if g != want:
                fam = form if form == "gemini-prompt" else clients.FORMS[form][1]
                fails.append(Fail("search-differs:%s" % fam,
                                  "search string %r reaches the handler as %r through %s (sent per that protocol's own mechanism)" % (want, g, form)))
        if target.endswith(".sh") and not fails:
            for form, out in outs.items():
                fam = form if form == "gemini-prompt" else clients.FORMS[form][1]
                if fam == "wap":
                    continue  # text output is converted to WML
                if out != q:
                    fails.append(Fail("search-env:%s" % fam, "$SEARCHREQUEST seen by the script through %s is %r, sent %r" % (form, out, q)))
        seen_s, out_f = set(), []
        for f in fails:
            if f.sig not in seen_s:
                seen_s.add(f.sig)
                out_f.append(f)
        return out_f
    finally:
        world.rmtree(d)


def check_case(case, ctx):
    if case["mode"] == "listing":
        return _check_listing(case, ctx)
    if case["mode"] == "resolve":
        return _check_resolve(case, ctx)
    return _check_search(case, ctx)
