"""C01 - Nothing outside the document root is ever read, listed, run or revealed."""
from __future__ import annotations

import os
import re

from hypothesis import strategies as st

from pgv import clients, drive, monitor, sites, world
from pgv.core import Fail

ID = "C01"
CASE_TIMEOUT_S = 15
LEVEL = "exploration"
RULE = ("A sandbox S holds root/ (files, dirs, mbox, Maildir, HTML; with the full handler list also a ZIP with "
        "mailbox / nested-ZIP / script / symlink members that point outside, a script, a .pyg, a .tal, a .gz), an "
        "outside world (S/secret*, S/rootx prefix sibling, twins of every relative member/selector path in S/ and "
        "S/cwd/) and a working directory. A request = base selector x injected token (.. ./ // .\\ \\\\ NUL, "
        "segment- or character-aligned, aimed at real outside objects) x 0-3 percent-encoding layers x virtual/ZIP "
        "suffix x protocol form x handler list x cwd, or raw bytes. Oracles: (a) the reply and the handler chosen "
        "are identical in two worlds that differ only outside the root - and the reply does not contain the absolute path of the "
        "root's surroundings unless the request spelt it; a third run says, through os.stat / os.lstat, that every path outside "
        "the sandbox which the server asked about and did not find exists, and must give the same reply again -, (b) the audit monitor sees no open / "
        "listdir / exec outside realpath(root), (c) a selector that, decoded once as the protocol does, contains "
        "a climbing token and is not a URL: link is answered with the protocol's not-found reply. "
        "Four enumerated start-up cases launch a real server process in a working directory with the root given "
        "relative to it (foreground and detach = yes): its replies must equal those of a server given the same directory "
        "absolutely and must not come from a decoy directory of the same relative name under '/'. "
        "Non-trivial: the decoded selector contains a climbing token or addresses a ZIP member / virtual item; "
        "distinct by case hash. Label 'reach:outside-object' counts cases whose unfiltered path names an existing "
        "outside object.")
ASSUMPTIONS = [
    "trees contain no symlink leaving the root (quantifier)",
    "CPython audit events stand for file opens / directory listings / process launches; stat-only probes raise no "
    "event and are covered by the two-world comparison and the simulated third world only",
    "interpreter-internal opens (stdlib under sys.prefix, /usr/lib, the repository and harness sources) are allow-listed",
    "the two worlds share one root directory; cache files the first run leaves are removed before the second",
]

FORMS = ["gopher", "gophers", "gplus", "gpluss", "gdollar", "gbang", "http", "https", "head", "wap", "waphdr",
         "gemini", "spartan"]
def _u8(x):
    return x.encode("utf-8").decode("latin-1")


# characters that Unicode compatibility normalisation folds to '.', '..', '/' and '\\'
UDOTS = [_u8("\u2025"), _u8("\uff0e\uff0e"), _u8("\u2024\u2024"), _u8("\ufe52\ufe52"), _u8("\uff0e.")]
USLASH = [_u8("\uff0f"), _u8("\uff3c")]
SEG_INJ = UDOTS + [UDOTS[0] + USLASH[0] + UDOTS[0]] + ["..", "../..", "../../..", ".", "", "...", "..;", "%2e%2e", "..%2f..", "\\..\\..", ".\\..", "\\\\x",
           "..\\", "a..b", "x.", "~", "..\x00", "\x00"]
CHR_INJ = ["../", "/..", "./", "//", "\\..\\", ".\\", "\\\\", "\x00", "..", "/../", "/./", "\\", "%00", "%2e%2e%2f",
           "%5c%5c", "/%2e%2e/", "/..|", "/..?", "..|/MAILDIR-MESSAGE/1", "/../rootx|/MAILDIR-MESSAGE/1"]
SUFFIX = ["", "", "", "|/MBOX-MESSAGE/1", "|/MAILDIR-MESSAGE/1", "|/MBOX-MESSAGE/../1", "?../secret.txt", "?arg",
          "/box.mbox", "/inner.zip", "/inner.zip/x.txt", "/lnk", "/abs", "/abs2", "/../secret.txt", "|../secret.txt",
          "/box.mbox|/MBOX-MESSAGE/1", "/md|/MAILDIR-MESSAGE/1", "/s.sh", "/m.pyg", "/d/b.txt"]
AIMS = ["..|/MAILDIR-MESSAGE/1", "..|", "..?x", "../rootx|/MAILDIR-MESSAGE/1", "../cwd/box.mbox|/MBOX-MESSAGE/1", "../secret.txt", "../secret/inner.txt", "../rootx/file.txt", "../cwd/box.mbox", "../root/readme.txt",
        "..", "../secret", "../rootx", "../..", "../box.mbox", "../inner.zip"]
CWDS = ["cwd", "S", "root", "/"]

PYG = ('from pygopherd.handlers.pyg import PYGBase\nfrom pygopherd.gopherentry import GopherEntry\n'
       'class PYGMain(PYGBase):\n    def canhandlerequest(self):\n        return True\n'
       '    def getentry(self):\n        e = GopherEntry(self.selector, self.config)\n        e.setname("pyg")\n'
       '        e.settype("0")\n        e.setmimetype("text/plain")\n        return e\n'
       '    def isdir(self):\n        return False\n'
       '    def write(self, wfile):\n        wfile.write(b"pyg output\\n")\n')
TAL = '<html><body><p tal:content="selector">x</p></body></html>\n'


def _inner_zip():
    return world.u(world.zip_bytes([["x.txt", "f", "inner x\n", {}]]))


def _root_spec(full, S):
    spec = [
        ["readme.txt", "f", "readme\n"],
        # content that points outside: gophermap and link-file entries whose selectors climb out of the root
        ["gm/gophermap", "f", "iinfo\n0Out abs\t/../secret.txt\n0Out rel\t../../secret.txt\n1Out dir\t/../rootx\n0In\t/readme.txt\n"
                              "0Out two\t/dir/../../secret.txt\nhMail me\tURL:mailto:a@b\n0No slash\tx/file.txt\t+\n"],
        ["lk/.links", "f", "Name=Out abs\nType=0\nPath=/../secret.txt\nHost=+\nPort=+\n\nName=Out rel\nType=0\nPath=../../secret.txt\n\n"
                           "Name=Out dir\nType=1\nPath=/../rootx\n"],
        ["lk/in.txt", "f", "in\n"],
        # link blocks that leave out Name= or Type= (a server may fill such gaps from the target - never from outside the root)
        ["lk2/.links", "f", "Type=0\nPath=/../secret.txt\nHost=+\nPort=+\n\nName=No type\nPath=/../secret.txt\n\n"
                            "Name=Dot slash\nPath=./../../secret.txt\n\nName=Dir no type\nPath=/../rootx\n\nName=Inside\nPath=/readme.txt\n"],
        ["lk2/in.txt", "f", "in\n"],
        # directories named after things the server treats specially (a site's own icons, per-file overrides)
        [".icons/text.gif", "f", "GIF89a site icon"], [".icons/sub/x.gif", "f", "GIF89a"],
        ["dir/file.txt", "f", "file\n"],
        ["dir/sub/deep.txt", "f", "deep\n"],
        ["box.mbox", "f", sites.mbox_text(["inside one", "inside two"])],
        ["page.html", "f", "<html><title>Page</title></html>\n"],
        ["dir/.names", "f", "Name=Deep\nType=0\nPath=./sub/deep.txt\n"],
    ] + sites.maildir_spec("md", ["inside md"])
    if full:
        members = [
            ["a.txt", "f", "zip a\n", {}],
            ["d/b.txt", "f", "zip b\n", {}],
            ["box.mbox", "f", sites.mbox_text(["zip mail"]), {}],
            ["inner.zip", "f", _inner_zip(), {}],
            # what 'zip -r' of a directory that was served before leaves in an archive: the nested archive's index cache
            [".cache.pygopherd.zip3.inner.zip", "f", "stale index\n", {}],
            ["lnk", "l", "../../secret.txt", {}],
            ["abs", "l", "/etc/passwd", {}],
            ["abs2", "l", S + "/secret.txt", {}],
            ["up", "l", "..", {}],
            ["rel", "l", "a.txt", {}],
            ["s.sh", "f", sites.SCRIPT, {"mode": 0o755}],
            ["m.pyg", "f", PYG, {"mode": 0o755}],
            ["md/cur/x", "f", "From: z@z\nSubject: zip md\n\nb\n", {}],
            ["md/new/y", "f", "From: z@z\nSubject: zip md2\n\nb\n", {}],
            ["md/tmp/z", "f", "", {}],
            ["t.html.tal", "f", TAL, {}],
        ]
        spec += [
            ["arc.zip", "zip", {"members": members}],
            ["run.sh", "f", sites.SCRIPT, 0o755],
            # executable text files without a '#!' line (the kernel refuses them: ENOEXEC), and one with blanks in its name
            ["plain.exe", "f", "echo plain output\n", 0o755],
            ["cgi/no shebang", "f", "echo no shebang\n", 0o755],
            ["hello.pyg", "f", PYG, 0o755],
            ["t.html.tal", "f", TAL],
            ["c.txt.gz", "f", sites.gz_text("compressed\n")],
            ["dir/inner.zip", "f", _inner_zip()],
        ]
    return spec


def _outside_spec(variant):
    """variant 'A' or 'Bdiff' (different contents).  'Babsent' = nothing at all."""
    tag = "SECRET-%s" % variant
    mb = sites.mbox_text([tag + " subject"])
    z = world.u(world.zip_bytes([["x.txt", "f", tag + " in zip\n", {}], ["stolen.txt", "f", tag, {}]]))
    spec = [
        ["secret.txt", "f", tag + "\n"],
        ["secret.txt.abstract", "f", tag + " abstract of the outside file\n"],
        ["rootx/.abstract", "f", tag + " abstract of the outside directory\n"],
        # siblings of the root whose names extend the root's name by a selector that lacks its leading slash
        ["rootURL:mailto:a@b", "f", tag + " sibling named like a URL link\n"],
        ["rootURL:mailto:a@b.abstract", "f", tag + " abstract of that sibling\n"],
        ["rootURL:secret.txt", "f", tag + " sibling in the URL: namespace\n"],
        ["rootURL:dir/inner.txt", "f", tag + " inner of such a sibling\n"],
        ["secret/inner.txt", "f", tag + " inner\n"],
        # siblings named like metadata of the root itself (the root's name plus a sidecar extension, a link file, a menu)
        ["root.abstract", "f", tag + " abstract next to the root\n"], ["root.keywords", "f", tag + " keywords next to the root\n"],
        ["root.ask", "f", "Ask: " + tag + "\n"], ["root.3d", "f", tag + "\n"], ["root.names", "f", "Name=" + tag + "\nPath=./secret.txt\n"],
        ["root.gophermap", "f", "i" + tag + "\n0stolen\tsecret.txt\n"], ["root.cap/readme.txt", "f", "Name=" + tag + "\n"],
        ["rootx/file.txt", "f", tag + " sibling\n"],
        ["rootx/readme.txt", "f", tag + " sibling readme\n"],
    ]
    for base in ("", "cwd/"):
        spec += [
            [base + "box.mbox", "f", mb],
            [base + "inner.zip", "f", z],
            [base + "dir/inner.zip", "f", z],
            [base + "a.txt", "f", tag + " a\n"],
            [base + "d/b.txt", "f", tag + " b\n"],
            [base + "readme.txt", "f", tag + " readme twin\n"],
            [base + "s.sh", "f", "#!/bin/sh\necho %s\n" % tag, 0o755],
            [base + "m.pyg", "f", PYG.replace("pyg output", tag), 0o755],
            [base + "t.html.tal", "f", "<p>%s</p>" % tag],
            [base + "t.html", "f", "<p>%s</p>" % tag],
            [base + "lnk", "f", tag],
            [base + "arc.zip", "f", z],
            [base + ".cache.pygopherd.zip3.inner.zip", "f", tag],
        ] + sites.maildir_spec(base + "md", [tag + " md"])
    spec.append(["cwd/keep", "f", "x"])
    # the root's own parent directory is a Maildir, and holds an mbox named like the root (targets of '/..|...' requests)
    spec += [["new/1.msg", "f", "From: x@y\nSubject: %s parent maildir\n\nbody\n" % tag], ["cur/.keep", "f", ""], ["tmp/.keep", "f", ""],
             ["rootx/new/1.msg", "f", "From: x@y\nSubject: %s sibling maildir\n\nbody\n" % tag], ["rootx/cur/.keep", "f", ""],
             ["rootx/tmp/.keep", "f", ""]]
    return spec


BASES = ["/", "/gm", "/lk", "/gm", "/lk", "/lk2", "/lk2", "/readme.txt", "/dir", "/dir/file.txt", "/dir/sub/deep.txt", "/box.mbox", "/md", "/page.html",
         "/arc.zip", "/arc.zip/a.txt", "/arc.zip/d", "/arc.zip/d/b.txt", "/arc.zip/box.mbox", "/arc.zip/inner.zip",
         "/arc.zip/lnk", "/arc.zip/abs", "/arc.zip/abs2", "/arc.zip/up", "/arc.zip/rel", "/arc.zip/s.sh",
         "/arc.zip/m.pyg", "/arc.zip/md", "/arc.zip/t.html.tal", "/run.sh", "/hello.pyg", "/t.html.tal", "/c.txt.gz",
         "/dir/inner.zip", "/dir/inner.zip/x.txt", "/1/dir", "/0/readme.txt", "", "readme.txt", "box.mbox",
         "/secret.txt", "/rootx/file.txt", "/cwd/box.mbox", "/URL:http://x/../y", "URL:file://../secret.txt",
         "x/file.txt", "x/readme.txt", "x", "x/new/1.msg", "x|/MAILDIR-MESSAGE/1", "/..|/MAILDIR-MESSAGE/1", "/..?", "/..|", "/dir/..|/MAILDIR-MESSAGE/1", "/../rootx|/MAILDIR-MESSAGE/1", "/dir/../..|/MAILDIR-MESSAGE/1"]


# executables the kernel refuses to run (no '#!' line): the failure's message names the file by its absolute path
BASES += ["/plain.exe", "/cgi/no shebang", "/plain.exe?x", "/cgi/no shebang|y"]
# the reserved namespaces the protocols answer themselves, before any handler (and its selector filter) exists
BASES += ["/PYGOPHERD-HTTPPROTO-ICONS/text.gif", "/PYGOPHERD-HTTPPROTO-ICONS/../../secret.txt", "/PYGOPHERD-HTTPPROTO-ICONS/../secret.txt",
          "/PYGOPHERD-HTTPPROTO-ICONS/..%2f..%2fsecret.txt", "/PYGOPHERD-HTTPPROTO-ICONS/%2e%2e/%2e%2e/secret.txt", "/PYGOPHERD-HTTPPROTO-ICONS",
          "/GEMINI-QUERY/../../secret.txt", "/GEMINI-QUERY/dir"]  # (the 'wap' forms put their own prefix in front of each of these)
# selectors in the 'URL:' namespace that are no URLs (without a leading slash they would name siblings of the root)
BASES += ["URL:secret.txt", "URL:dir", "URL:dir/inner.txt", "URL:mailto:a@b", "/URL:secret.txt"]
NOSLASH = ["URL:secret.txt", "URL:dir/inner.txt", "URL:dir", "x/file.txt", "x/readme.txt", "x", "x/new/1.msg", "x/new", "readme.txt", "dir/file.txt", "x/../root/readme.txt", "arc.zip/a.txt"]
# virtual arguments that would be shell syntax if they ever reached a shell (@S@ = the sandbox directory)
BASES += [b + sep + arg for b in ("/plain.exe", "/run.sh", "/cgi/no shebang", "/hello.pyg")
          for sep in ("?", "|") for arg in ("x;cat @S@/secret.txt", "$(cat @S@/secret.txt)", "`cat @S@/secret.txt`", "x && ls @S@", "x|cat @S@/secret.txt",
                                           "x > @S@/cwd/created-by-shell", "-f @S@/secret.txt")]
ZIP_BASES = [b for b in BASES if ".zip" in b or ".mbox" in b or "md" in b] * 2


@st.composite
def _case(draw):
    mode = draw(st.sampled_from(["struct", "struct", "struct", "struct", "raw", "noslash", "probe"]))
    c = {"full": draw(st.booleans()), "cwd": draw(st.sampled_from(CWDS)),
         "worldB": draw(st.sampled_from(["absent", "diff"])), "form": draw(st.sampled_from(FORMS))}
    if mode == "raw":
        c["raw"] = world.u(draw(st.one_of(
            st.binary(max_size=40),
            st.builds(lambda a, b_, c_: a + b_ + c_, st.sampled_from([b"", b"/", b"GET /", b"gemini://h/", b"h /"]),
                      st.lists(st.sampled_from([b"..", b"/", b"%2e", b"%2f", b"\\", b".", b"secret.txt", b"%00", b"\0",
                                                b"arc.zip", b"box.mbox", b"|", b"?", b"cwd", b"rootx", b"%25", b"dir"]),
                               max_size=8).map(b"".join),
                      st.sampled_from([b"\r\n", b" HTTP/1.0\r\n\r\n", b" 0\r\n", b"\t+\r\n", b"\t$\r\n"])))))
        c["rawtls"] = draw(st.booleans())
        return c
    if mode == "noslash":
        # a path without its leading slash, as a sloppy URL-protocol client sends it: root + selector must not become
        # a sibling of the root ("<root>x/...")
        c["form"] = draw(st.sampled_from(["spartan", "spartan", "http", "wap", "head"]))
        c.update(noslash=True, sel=draw(st.sampled_from(NOSLASH)) + draw(st.sampled_from(["", "", "/", "|/MAILDIR-MESSAGE/1", "?x"])),
                 inj="", style="noslash", layers=draw(st.sampled_from([0, 0, 1])), enc_all=False, lower_hex=draw(st.booleans()))
        return c
    if mode == "probe":
        # an existence probe: only real directories are walked, the target exists in world A, nothing is appended and
        # the encoding is exactly what the protocol undoes - os.stat(root + selector) succeeds if the filter is bypassed
        base = draw(st.sampled_from(["/", "/dir", "/dir/sub", "/md", "/md/new"]))
        depth = 0 if base == "/" else base.count("/")
        target = draw(st.sampled_from(["secret.txt", "secret", "secret/inner.txt", "rootx", "rootx/file.txt", "box.mbox",
                                       "cwd", "cwd/a.txt", "md", "root", "root/readme.txt", "", "new/1.msg"]))
        dots = draw(st.sampled_from(["..", "..", ".."] + UDOTS))
        slash = draw(st.sampled_from(["/", "/", "/", USLASH[0]])) if dots != ".." else "/"
        sel = base.rstrip("/") + "/" + (dots + slash) * (depth + 1) + target
        fam = clients.FORMS[c["form"]][1]
        c.update(noslash=False, sel=sel.rstrip("/") or "/..", inj="../" * (depth + 1) + target, style="probe",
                 layers=0 if fam in ("gopher", "gplus", "gdollar", "gbang") else draw(st.sampled_from([0, 1])),
                 enc_all=draw(st.booleans()), lower_hex=draw(st.booleans()), worldB="absent")
        return c
    base = draw(st.sampled_from(BASES + ZIP_BASES))
    style = draw(st.sampled_from(["seg", "chr", "aim", "none", "none"]))
    sel = base
    inj = ""
    if style == "seg":
        segs = base.split("/")
        pos = draw(st.integers(0, len(segs)))
        inj = draw(st.sampled_from(SEG_INJ))
        segs.insert(pos, inj)
        sel = "/".join(segs)
    elif style == "chr":
        pos = draw(st.integers(0, len(base)))
        inj = draw(st.sampled_from(CHR_INJ))
        sel = base[:pos] + inj + base[pos:]
    elif style == "aim":
        depth = base.count("/") - 1 if base.startswith("/") else base.count("/")
        ups = draw(st.integers(0, 2))
        inj = "../" * max(0, depth + ups) + draw(st.sampled_from(AIMS))
        sep = draw(st.sampled_from(["/", "/", "\\", "//"]))
        sel = base.rstrip("/") + sep + inj.replace("/", sep if sep != "//" else "/")
    sel += draw(st.sampled_from(SUFFIX))
    c.update(noslash=draw(st.booleans()), sel=sel, inj=inj, style=style, layers=draw(st.sampled_from([0, 0, 1, 1, 2, 3])),
             enc_all=draw(st.booleans()), lower_hex=draw(st.booleans()))
    return c


def strategy(tier):
    return _case()


def examples(tier):
    return 16000 if tier == "quick" else 300000


_TOKENS = ("..", "./", "//", ".\\", "\\\\", "\0")


def _pct_layers(s, layers, enc_slash, lower):
    """Layer 1 percent-encodes the climbing characters (. \\ % NUL | ? and, if enc_slash, /);
    every further layer encodes the % signs of the previous one."""
    bs = world.b(s)
    for i in range(layers):
        out = bytearray()
        for ch in bs:
            enc = (ch in b".\\%\0|?" or (enc_slash and ch == 0x2F)) if i == 0 else ch == 0x25
            if enc:
                out += (b"%%%02x" if lower else b"%%%02X") % ch
            else:
                out.append(ch)
        bs = bytes(out)
    return bs


def _server_selector(form, sent_sel_or_path):
    """What the server must take as the selector: Gopher family = the field, blank-stripped; URL family = the
    path percent-decoded ONCE.  Then one trailing slash dropped, leading slash added."""
    fam = clients.FORMS[form][1]
    if fam in ("gopher", "gplus", "gdollar", "gbang"):
        s = sent_sel_or_path.decode("utf-8", "surrogateescape").strip().encode("utf-8", "surrogateescape")
    else:
        s = clients.unpct(sent_sel_or_path)
    if s.endswith(b"/"):
        s = s[:-1]
    if not s.startswith(b"/"):
        s = b"/" + s
    return s


def _has_token(sel):
    return any(world.b(t) in sel for t in _TOKENS)


_warm = False


def _warmup():
    """trigger lazy stdlib imports before the monitor is armed"""
    global _warm
    if _warm:
        return
    import mailbox, zipfile, shelve, dbm.dumb, gzip, html.parser, email.parser, email.policy  # noqa
    import encodings.cp437, encodings.idna, encodings.latin_1, importlib.util, subprocess, codecs  # noqa
    d, root = world.build(_root_spec(True, "/nonexistent"))
    try:
        cfg = drive.make_config(root, "full")
        for req, tls in [(b"/\r\n", False), (b"/arc.zip\r\n", False), (b"/box.mbox\r\n", False), (b"/md\r\n", False),
                         (b"GET / HTTP/1.0\r\n\r\n", False), (b"gemini://h/\r\n", True), (b"h / 0\r\n", False),
                         (b"/run.sh\r\n", False), (b"/hello.pyg\r\n", False), (b"/t.html.tal\r\n", False),
                         (b"/c.txt.gz\r\n", False), (b"/arc.zip/box.mbox\r\n", False), (b"/\t$\r\n", False),
                         (b"GET /wap/ HTTP/1.0\r\n\r\n", False), (b"/arc.zip/md\r\n", False),
                         (b"/arc.zip/t.html.tal\r\n", False), (b"/box.mbox|/MBOX-MESSAGE/1\r\n", False)]:
            drive.serve(cfg, req, tls=tls, realfd=True)
    finally:
        world.rmtree(d)
    _warm = True


def setup_worker(tier):
    _warmup()


_FAKE_STAT = os.stat_result((0o100644, 7, 2049, 1, 0, 0, 4321, 1234567890, 1234567890, 1234567890))
_SYSTEM = tuple(os.fsencode(p) for p in ("/proc", "/dev", "/sys", "/usr", "/lib", "/opt", "/venv", "/etc", "/root", "/verif", "/repo"))


class _StatWorld:
    """The state of the file system outside the sandbox directory S cannot be set up for real (a path like '/pub/a.zip' lies
    in the machine's root directory); it is simulated where the server looks: os.stat / os.lstat (and with them
    os.path.exists, isfile, isdir, getmtime).  Recording: notes every path outside S that the server asks about and that does
    not exist.  Faking: says such a path is a regular file."""

    def __init__(self, S, fake):
        self.S, self.fake, self.asked = os.fsencode(S), fake, []

    def __enter__(self):
        self.saved = (os.stat, os.lstat)
        real_stat, real_lstat = self.saved

        def wrap(real):
            def f(path, *a, **kw):
                try:
                    return real(path, *a, **kw)
                except FileNotFoundError:
                    if isinstance(path, (str, bytes)) and not kw.get("dir_fd"):
                        # (as the kernel sees it, not normalised: a path that starts inside the sandbox and climbs is resolved
                        # through the sandbox - worlds A and B are about those)
                        raw = os.path.join(os.fsencode(os.getcwd()), os.fsencode(path))
                        pb = os.path.abspath(raw)
                        if not raw.startswith(self.S) and not pb.startswith(_SYSTEM) and PGV_MARK not in pb:
                            self.asked.append(pb)
                            if self.fake:
                                return _FAKE_STAT
                    raise
            return f
        os.stat, os.lstat = wrap(real_stat), wrap(real_lstat)
        return self

    def __exit__(self, *exc):
        os.stat, os.lstat = self.saved


PGV_MARK = b"/pgv-"  # the harness's own scratch directories


def _run(cfg, root, req, tls, cwd, statworld=None):
    old = os.getcwd()
    os.chdir(cwd)
    try:
        with monitor.armed_for() as evs:
            if statworld is not None:
                with statworld:
                    r = drive.serve(cfg, req, tls=tls, realfd=True)
            else:
                r = drive.serve(cfg, req, tls=tls, realfd=True)
        evs = list(evs)
    finally:
        os.chdir(old)
    return r, evs


def enumerate_cases(tier, seed):
    """start-up flavour: the server is configured to chroot, the kernel refuses (an unprivileged process); whatever
    start-up does then, requests must not reach anything outside the configured root"""
    for su in (False, True):
        for cwd in ("cwd", "/"):
            yield {"mode": "startup-chroot-refused", "setuid": su, "cwd": cwd}
    # the reserved namespaces, climbing, in every form and both worlds
    for d in ("/PYGOPHERD-HTTPPROTO-ICONS/../../secret.txt", "/PYGOPHERD-HTTPPROTO-ICONS/../secret.txt", "/PYGOPHERD-HTTPPROTO-ICONS/text.gif",
              "/PYGOPHERD-HTTPPROTO-ICONS/sub/../../../secret.txt", "/GEMINI-QUERY/../../secret.txt", "/GEMINI-QUERY/../secret.txt"):
        for form in FORMS:
            for layers in (0, 1):
                yield {"full": layers == 1, "cwd": "/", "worldB": "absent" if layers else "diff", "form": form, "noslash": False, "sel": d, "inj": "",
                       "style": "none", "layers": layers, "enc_all": False, "lower_hex": False}
    for d in ("/plain.exe", "/cgi/no shebang"):
        for form in FORMS:
            yield {"full": True, "cwd": "/", "worldB": "absent", "form": form, "noslash": False, "sel": d, "inj": "",
                   "style": "none", "layers": 0, "enc_all": False, "lower_hex": False}
    # selectors in the 'URL:' namespace that are no URLs, as sent (no leading slash) in every form
    for d in ("URL:secret.txt", "URL:dir", "URL:dir/inner.txt"):
        for form in FORMS:
            yield {"full": False, "cwd": "/", "worldB": "diff", "form": form, "noslash": True, "sel": d, "inj": "",
                   "style": "noslash", "layers": 0, "enc_all": False, "lower_hex": False}
    # a real server process started with a relative document root, in the foreground and detached
    for detach in (True, False):
        for prefix, st_ in (("", "ForkingTCPServer"), ("./", "ThreadingTCPServer")):
            yield {"mode": "startup-relative-root", "detach": detach, "prefix": prefix, "servertype": st_}
    # plain requests for the directories whose content (gophermap lines, link-file blocks) points outside, in every form
    for d in ("/gm", "/lk", "/lk2", "/"):
        for form in FORMS:
            for full in (False, True):
                yield {"full": full, "cwd": "cwd" if full else "/", "worldB": "absent", "form": form, "noslash": False, "sel": d, "inj": "",
                       "style": "none", "layers": 0, "enc_all": False, "lower_hex": False}


def _check_startup(case, ctx):
    from pygopherd import initialization
    from pgv.props import c19
    S = world.fresh_dir("S")
    root = os.path.join(S, "root")
    os.mkdir(root)
    old = os.getcwd()
    try:
        world.materialise(_root_spec(False, S), root)
        os.mkdir(os.path.join(S, "cwd"))
        world.materialise(_outside_spec("A"), S)
        conf = c19._write_conf(S, root, {"chroot": True, "setuid": case["setuid"], "setgid": False})
        trace = []
        drive.reset_globals()
        os.chdir({"cwd": os.path.join(S, "cwd"), "/": "/"}[case["cwd"]])
        server = None
        with c19._Patches(trace, "chroot"):
            try:
                server = initialization.initialize(conf)
            except Exception:
                server = None  # start-up aborted: nothing is served at all
        drive._mime_inited = None
        ctx.nontriv()
        ctx.label("startup:chroot-refused", "startup:%s" % ("aborted" if server is None else "went-on"))
        ctx.sample(case, cls="startup")
        if server is None:
            return []
        fails = []
        Sb = os.fsencode(S)
        for req, tls in [(Sb + b"/secret.txt\r\n", False), (b"GET " + clients.pct(Sb) + b"/secret.txt HTTP/1.0\r\n\r\n", False),
                         (Sb + b"/rootx\r\n", False), (b"gemini://h" + clients.pct(Sb) + b"/secret.txt\r\n", True),
                         (b"/readme.txt\r\n", False)]:
            with monitor.armed_for() as evs:
                r = drive.serve(server.config, req, tls=tls, realfd=True, reset=False)
            bad = monitor.outside_events(list(evs), root, [])
            if b"SECRET-A" in r.response or bad:
                fails.append(Fail("startup:serves-outside-the-configured-root",
                                  "chroot was refused at start-up, start-up went on, and request %r %s" % (
                                      req[:80], "returns content from outside the configured root" if b"SECRET-A" in r.response
                                      else "opens %r outside it" % (bad[0],))))
                break
        return fails
    finally:
        os.chdir(old)
        drive.reset_globals()
        world.rmtree(S)


def _check_detached(case, ctx):
    """a real server process started in a working directory, with the document root given relative to it; with
    detach = yes it goes to the background.  Whatever start-up does to the process, requests are answered from the
    directory the configuration named when the server was started - never from a directory of the same relative name
    elsewhere (a decoy holding other content sits where the name leads from '/')."""
    from pgv import live
    import configparser
    S = world.fresh_dir("S")
    srv = ref = None
    try:
        start = os.path.join(S, "start")
        rel = S.lstrip("/") + "/root"
        real = os.path.join(start, rel)
        os.makedirs(real)
        world.materialise([["hello.txt", "f", "inside\n"], ["d/a.txt", "f", "a\n"]], real)
        decoy = os.path.join(S, "root")  # = '/' + rel
        os.mkdir(decoy)
        world.materialise([["hello.txt", "f", "DECOY\n"], ["secret.txt", "f", "SECRET-A\n"], ["d/a.txt", "f", "DECOY\n"]], decoy)
        conf = live.write_conf(os.path.join(S, "s.conf"), case["prefix"] + rel, "shipped", case["servertype"], cachetime=0)
        cp = configparser.ConfigParser()
        cp.read(conf)
        cp.set("pygopherd", "detach", "yes" if case["detach"] else "no")
        with open(conf, "w") as f:
            cp.write(f)
        srv = live.Server(conf, cwd=start)
        ref = live.Server(live.write_conf(os.path.join(S, "r.conf"), real, "shipped", case["servertype"], cachetime=0))
        ctx.nontriv((case["detach"], case["prefix"], case["servertype"]))
        ctx.label("startup:relative-root:%s" % ("detached" if case["detach"] else "foreground"))
        ctx.sample(case, cls="detached")
        fails = []
        for sel in (b"/hello.txt", b"/secret.txt", b"/", b"/d", b"/d/a.txt"):
            for form in ("gopher", "https", "gemini", "gplus"):
                tls = clients.FORMS[form][0]
                rq = clients.encode(form, sel)
                got = live.request(srv.port, rq, tls)
                want = live.request(ref.port, rq, tls)
                if b"SECRET-A" in got or b"DECOY" in got:
                    fails.append(Fail("startup:relative-root-resolved-elsewhere",
                                      "started in %r with root = %r (detach = %s): the %s request for %r is answered from %r, "
                                      "outside the configured root: %r" % (start, case["prefix"] + rel, case["detach"], form, sel, decoy, got[:80])))
                elif got != want:
                    fails.append(Fail("startup:relative-root-reply-differs",
                                      "started in %r with root = %r (detach = %s): the %s reply for %r differs from the reply of a "
                                      "server whose root is the same directory given absolutely: %r vs %r" % (
                                          start, case["prefix"] + rel, case["detach"], form, sel, got[:80], want[:80])))
                if fails:
                    return fails
        return fails
    finally:
        for s_ in (srv, ref):
            if s_ is not None:
                s_.stop()
        world.rmtree(S)


def check_case(case, ctx):
    if case.get("mode") == "startup-chroot-refused":
        return _check_startup(case, ctx)
    if case.get("mode") == "startup-relative-root":
        return _check_detached(case, ctx)
    _warmup()
    full = case["full"]
    S = world.fresh_dir("S")
    root = os.path.join(S, "root")
    os.mkdir(root)
    try:
        world.materialise(_root_spec(full, S), root)
        os.mkdir(os.path.join(S, "cwd"))
        world.materialise(_outside_spec("A"), S)
        cfg = drive.make_config(root, "full" if full else "shipped",
                                **{"handlers.dir.DirHandler::cachetime": "0"})
        if "raw" in case:
            req, tls, form = world.b(case["raw"]), case["rawtls"], None
            ssel = None
        else:
            form = case["form"]
            tls = clients.FORMS[form][0]
            fam = clients.FORMS[form][1]
            sel = case["sel"].replace("@S@", S)
            if fam in ("gopher", "gplus", "gdollar", "gbang"):
                sent = _pct_layers(sel, case["layers"], case["enc_all"], case["lower_hex"])
                sent = re.sub(rb"[\t\r\n]", b"_", sent)
                req = clients.encode(form, sent)
                ssel = _server_selector(form, sent)
            else:
                layers = max(1, case["layers"]) if re.search(r"[ \t\r\n?#\x00-\x1f\x7f-\xff]", sel) else case["layers"]
                sent = _pct_layers(sel, layers, case["enc_all"], case["lower_hex"])
                if layers == 0:
                    sent = clients.pct(sent, safe=clients._UNRESERVED + b"\\|%;:@&=+$,!*'()")
                else:
                    sent = clients.pct(sent, safe=clients._UNRESERVED + b"%\\|;:@&=+$,!*'()")
                if not sent.startswith(b"/") and not (case.get("noslash") and fam in ("spartan", "http", "head", "wap") and sent):
                    sent = b"/" + sent  # (otherwise the path travels without a leading slash, as a sloppy client sends it)
                req = clients.encode(form, b"", raw_path=sent)
                ssel = _server_selector(form, sent)
        cwd = {"cwd": os.path.join(S, "cwd"), "S": S, "root": root, "/": "/"}[case["cwd"]]

        swa = _StatWorld(S, fake=False)
        ra, eva = _run(cfg, root, req, tls, cwd, swa)
        rc = None
        if swa.asked:
            # world C: whatever the server asked about outside the sandbox and did not find is there (a regular file)
            ctx.label("asks-about-paths-outside-the-sandbox")
            world.remove_caches(root)
            world.fix_mtimes(root)
            rc, evc = _run(cfg, root, req, tls, cwd, _StatWorld(S, fake=True))
        # world B
        for n in os.listdir(S):
            if n != "root":
                p = os.path.join(S, n)
                if os.path.isdir(p) and not os.path.islink(p):
                    world.rmtree(p)
                else:
                    os.unlink(p)
        os.mkdir(os.path.join(S, "cwd"))
        if case["worldB"] == "diff":
            world.materialise(_outside_spec("B"), S)
        world.remove_caches(root)
        world.fix_mtimes(root)
        rb, evb = _run(cfg, root, req, tls, cwd)

        fails = []
        token = ssel is not None and _has_token(ssel)
        virtual = ssel is not None and (b"|" in ssel or b"?" in ssel or b".zip/" in ssel)
        ctx.label("form:%s" % (form or "raw"), "cwd:" + case["cwd"], "full:%s" % full, "B:" + case["worldB"])
        if "raw" not in case:
            ctx.label("style:" + case["style"], "layers:%d" % case["layers"])
        if token or virtual:
            ctx.nontriv()
            ctx.label("nontrivial:token" if token else "nontrivial:virtual")
            ctx.sample(cls=("tok" if token else "virt") + str(case.get("layers")))
        if ssel is not None:
            reach = os.path.normpath(os.fsencode(root) + ssel.replace(b"\\", b"/").split(b"|")[0].split(b"?")[0].replace(b"\0", b""))
            if not monitor.under(reach, os.fsencode(root)) and monitor.under(reach, os.fsencode(S)):
                ctx.label("reach:outside-object")
                if case.get("style") == "probe":
                    ctx.label("reach:probe-of-existing-outside-object")

        # (a) non-interference
        if ra.response != rb.response:
            fails.append(Fail("interference:" + _who(ra, rb),
                              "reply depends on what exists outside the root (request %r, cwd=%s)" % (req[:100], case["cwd"]),
                              {"worldA": world.u(ra.response[:400]), "worldB": world.u(rb.response[:400]),
                               "logsA": ra.logs[-2:], "logsB": rb.logs[-2:]}))
        elif rc is not None and rc.response != ra.response:
            fails.append(Fail("interference:stat:" + _who(ra, rc),
                              "reply depends on whether %r, a path outside the root, exists (request %r, cwd=%s)" % (swa.asked[0], req[:100], case["cwd"]),
                              {"absent": world.u(ra.response[:400]), "present": world.u(rc.response[:400])}))
        elif ra.handler_names() != rb.handler_names() or ra.exception_classes() != rb.exception_classes():
            fails.append(Fail("interference-log:" + _who(ra, rb),
                              "handler/exception trace depends on what exists outside the root (request %r)" % (req[:100],),
                              {"logsA": ra.logs[-3:], "logsB": rb.logs[-3:]}))
        # (a') the reply does not tell where on the machine the document root lies (its absolute path names the directories
        # above it): unless the request itself spelt the path, it does not occur in the reply
        Sb = os.fsencode(S)
        import urllib.parse as _up
        spelt, layer = False, req
        for _ in range(5):
            if Sb in layer:
                spelt = True
                break
            layer = _up.unquote_to_bytes(layer)
        if Sb in ra.response and not spelt and not fails:
            i = ra.response.index(Sb)
            fails.append(Fail("reveals-root-path:" + _who(ra, rb),
                              "the reply to %r contains the absolute path of the document root's surroundings: %r" % (
                                  req[:100], ra.response[max(0, i - 40):i + len(Sb) + 30])))
        # (b) monitor
        allowed = ("zcat", "bzcat")
        for evs, w in ((eva, "A"), (evb, "B")):
            bad = monitor.outside_events(evs, root, allowed)
            if bad:
                ev, p, extra = bad[0]
                rel = p
                if isinstance(p, bytes) and monitor.under(p, os.fsencode(S)):
                    rel = b"<S>" + p[len(os.fsencode(S)):]
                fails.append(Fail("outside-%s:%s" % (ev, _who(ra, rb)),
                                  "request %r (cwd=%s): %s on %r outside the root" % (req[:100], case["cwd"], ev, rel),
                                  {"events": [repr(b)[:200] for b in bad[:5]]}))
                break
        # (c) climbing selectors are not-found
        if token and form is not None and not re.match(rb"^/?URL:.+://", ssel) \
                and not ssel.startswith(clients.GEM_QUERY + b"") and not fails:
            pr = clients.parse_response(form, ra.response)
            fam = clients.FORMS[form][1]
            ok_notfound = (pr.kind == "error") if fam not in ("head",) else (not pr.ok)
            if fam == "gemini" and ssel.startswith(b"/GEMINI-QUERY"):
                ok_notfound = True
            if fam in ("http", "head", "wap") and ssel.startswith(b"/PYGOPHERD-HTTPPROTO-ICONS/"):
                ok_notfound = True
            if not ok_notfound and ra.escaped is None:
                fails.append(Fail("climb-not-refused:" + _who(ra, rb),
                                  "selector %r contains a climbing token but was not answered as not-found (request %r)"
                                  % (ssel, req[:100]), {"response": world.u(ra.response[:300])}))
        if ra.escaped is not None:
            fails.append(Fail("escaped:" + drive.exc_signature(ra.escaped), "%r escaped for %r" % (ra.escaped, req[:80])))
        return fails
    finally:
        world.rmtree(S)


def _who(ra, rb):
    for r in (ra, rb):
        hn = r.handler_names()
        if hn:
            return hn[-1][1]
        for e, s in zip(r.handled, r.handled_signatures()):
            if type(e).__name__ != "FileNotFound":
                return s
    return "nohandler"
