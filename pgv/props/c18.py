"""C18 - simpleTAL never lets data become markup, code or leftover state."""
from __future__ import annotations

import copy
import io
import re

from hypothesis import strategies as st

from pgv import drive, talgen  # noqa: F401
from pgv.core import Fail
from pgv.model import tal as M
from pgv.props import c17

ID = "C18"
LEVEL = "exploration"
RULE = ("Four modes. 'skeleton': a generated TAL template without the structure keyword is expanded with a context full of "
        "markup metacharacters and with the same context whose strings are replaced by inert tokens: both outputs must "
        "tokenise to the same (tag, attribute-name) sequence. 'python': python: expressions with a side effect on a "
        "canary list are placed in every command position (also inside alternation, not:, string:${...}); with "
        "allowPythonPath=0 the canary must stay empty (and with 1 it must not, so the canary is known to work). "
        "'passthrough': TAL-free documents from an HTML grammar (doctype, comments, PIs, nesting, void elements, "
        "valueless / quoted / unquoted attributes, entity and character references, script/style raw text) must expand "
        "to a token-equal document and a second expansion must change nothing. 'restore': after expanding a generated "
        "template (missing paths, empty repeats - over empty lists and over empty, exhausted and live iterators, generators "
        "and length-less iterables -, false conditions included) the context's locals, local/repeat stacks "
        "and repeat map are as before and its globals are the same objects plus exactly the explicit global defines. "
        "Non-trivial: skeleton - a hostile value reaches the output; python - expression reached; passthrough - "
        "document with an entity, comment, raw-text element or valueless attribute; restore - template with a "
        "repeat or define.")
ASSUMPTIONS = [
    "html.parser is the trusted tokenizer on both sides; documents are balanced (end tags may be omitted only where "
    "HTML allows: p li td tr), contain no stray end tags, CDATA sections or self-closed non-void elements",
    "an expansion aborted by an exception from a context callable is outside the statement",
    "the built-in 'attrs' variable is transient by definition and ignored",
]


# ------------------------------------------------------------------------------------------------ generators

def _strip_structure(nodes):
    for n in nodes:
        if n["t"] == "el":
            for k in ("content", "replace"):
                if k in n["tal"] and n["tal"][k].startswith("structure "):
                    n["tal"][k] = n["tal"][k][len("structure "):]
            _strip_structure(n["kids"])
    return nodes


PY_EXPRS = ["python: canary.append(1)", "python:canary.append(2) or 'x'", "python: canary.extend([3]) or [1, 2]",
            "python: canary.append(4) or 1"]


@st.composite
def _python_case(draw):
    pos = draw(st.sampled_from(["condition", "content", "replace", "define", "attributes", "repeat", "omit-tag", "alt", "not",
                                "string", "define-global", "nested-content", "attr-alt"]))
    e = draw(st.sampled_from(PY_EXPRS))
    tal = {}
    if pos == "condition":
        tal["condition"] = e
    elif pos == "content":
        tal["content"] = e
    elif pos == "replace":
        tal["replace"] = "structure " + e
    elif pos == "define":
        tal["define"] = "x " + e
        tal["content"] = "x"
    elif pos == "define-global":
        tal["define"] = "global gx " + e
    elif pos == "attributes":
        tal["attributes"] = "title " + e
    elif pos == "repeat":
        tal["repeat"] = "it " + e
    elif pos == "omit-tag":
        tal["omit-tag"] = e
    elif pos == "alt":
        tal["content"] = "missing | " + e
    elif pos == "attr-alt":
        tal["attributes"] = "title missing/x | nothing/y | " + e
    elif pos == "not":
        tal["condition"] = "not:" + e
    elif pos == "string":
        tal["content"] = "string:a ${%s} b" % e
    elif pos == "nested-content":
        tal["condition"] = "s1"
    inner = [{"t": "text", "s": "inner"}]
    if pos == "nested-content":
        inner = [{"t": "el", "tag": "i", "attrs": [], "tal": {"content": e, "repeat": "q lst"}, "metal": {}, "kids": [], "void": False}]
    el = {"t": "el", "tag": draw(st.sampled_from(["div", "span", "tal:block"])), "attrs": [["id", "a"]], "tal": tal, "metal": {},
          "kids": inner, "void": False}
    if el["tag"] == "tal:block":
        el["tal"].pop("omit-tag", None)
    wrap = draw(talgen.nodes(0, {}))
    return {"mode": "python", "pos": pos, "template": wrap + [el], "ctx": draw(talgen.context(hostile=False))}


ENT = ["&amp;", "&lt;", "&gt;", "&quot;", "&copy;", "&eacute;", "&#169;", "&#x41;", "&nbsp;", "&#8364;"]
TEXTS = ["&#60;b&#62;x&#60;/b&#62;", "a &#x3C; b", "&#38;lt;i&#38;gt;", "&#x26;amp;", "&apos;q&apos;", "&lt;b&gt;x&lt;/b&gt;", "&lt;img src=x&gt;", "&amp;lt;i&amp;gt;", "a&lt;b", "plain", " two words ", "a &amp; b", "1 &lt; 2", "café", "\n  ", "x&nbsp;y", "&copy; 2024", "tab\there", "&#x41;BC", "$notvar ${x}"]
ATTRV = ["&#34;q&#34;", "a&#x3C;b", "v", "two words", "a &amp; b", "", "x&quot;y", "café", "http://x/?a=1&amp;b=2", "it's", "&lt;b&gt;"]
RAW = ["", "if (a < b && c > d) { x(\"</\" + \"div>\"); }", "var s = '<b>' + \"&amp;\";", "a&b", "p > a { color: red }", "/* <!-- */", "x < y"]
NEST = ["div", "span", "b", "em", "ul", "table", "section", "a", "h2", "DIV", "Span"]
OPT_END = ["p", "li", "td", "tr"]


@st.composite
def _doc_nodes(draw, depth):
    out = []
    for _ in range(draw(st.integers(0, 4))):
        k = draw(st.sampled_from(["text", "text", "el", "el", "void", "comment", "raw", "pi", "optend"]))
        if k == "text" or depth <= 0 and k in ("el", "optend"):
            out.append(draw(st.sampled_from(TEXTS)))
        elif k == "comment":
            out.append("<!--%s-->" % draw(st.sampled_from([" a comment ", "", " <b>not markup</b> & such ", "[if IE]>x<![endif]"])))
        elif k == "pi":
            out.append("<?%s>" % draw(st.sampled_from(["php echo 1; ?", "xml-stylesheet href=\"a.css\"?", "x"])))
        elif k == "raw":
            t = draw(st.sampled_from(["script", "style", "SCRIPT"]))
            out.append("<%s%s>%s</%s>" % (t, draw(_attrs()), draw(st.sampled_from(RAW)), t))
        elif k == "void":
            t = draw(st.sampled_from(["br", "hr", "img", "input", "BR", "meta", "link"]))
            out.append("<%s%s%s>" % (t, draw(_attrs()), draw(st.sampled_from(["", "", " /", "/"]))))
        elif k == "optend":
            t = draw(st.sampled_from(OPT_END))
            inner = draw(st.sampled_from(TEXTS))
            out.append("<%s%s>%s%s" % (t, draw(_attrs()), inner, draw(st.sampled_from(["</%s>" % t, "</%s>" % t, ""]))))
        else:
            t = draw(st.sampled_from(NEST))
            out.append("<%s%s>%s</%s>" % (t, draw(_attrs()), "".join(draw(_doc_nodes(depth - 1))), t))
    return out


@st.composite
def _attrs(draw):
    parts = []
    for name in draw(st.lists(st.sampled_from(["class", "id", "title", "href", "data-x", "checked", "disabled", "ID", "onclick"]),
                              max_size=3, unique_by=lambda s: s.lower())):
        style = draw(st.sampled_from(["dq", "dq", "sq", "unq", "bare"]))
        v = draw(st.sampled_from(ATTRV))
        if style == "dq":
            parts.append(' %s="%s"' % (name, v))
        elif style == "sq":
            parts.append(" %s='%s'" % (name, v.replace("'", "&#39;")))
        elif style == "unq":
            parts.append(" %s=%s" % (name, re.sub(r"[\s\"'<>=`&;]", "", v) or "v"))
        else:
            parts.append(" " + name)
    return "".join(parts)


@st.composite
def _passthrough_case(draw):
    doctype = draw(st.sampled_from(["", "", "<!DOCTYPE html>", "<!DOCTYPE HTML PUBLIC \"-//W3C//DTD HTML 4.01//EN\" \"http://www.w3.org/TR/html4/strict.dtd\">\n"]))
    body = "".join(draw(_doc_nodes(3)))
    nl = draw(st.sampled_from(["", "\n", "\r\n"]))
    return {"mode": "passthrough", "doc": doctype + body + nl, "minimize": draw(st.booleans())}


@st.composite
def _case(draw):
    mode = draw(st.sampled_from(["skeleton", "skeleton", "python", "passthrough", "passthrough", "restore"]))
    if mode == "python":
        return draw(_python_case())
    if mode == "passthrough":
        return draw(_passthrough_case())
    tpl = draw(talgen.template(draw(st.integers(1, 3))))
    ctx = draw(talgen.context(hostile=True))
    if mode == "skeleton":
        tpl = _strip_structure(tpl)
    if mode == "skeleton" and draw(st.integers(0, 2)) == 0:
        # raw-text elements (script / style, whose content HTML does not entity-decode) with substituted TEXT content: the
        # value is escaped there like anywhere else - a '</script>' in the data must not end the element
        for i in range(draw(st.integers(1, 2))):
            ex = draw(st.sampled_from(["s1", "s2", "lst/0", "d1/k_a", "lst2/0", "string:var x = '${s1}';", "f1", "text s2", "d1/k_b/k_c"]))
            tal = {draw(st.sampled_from(["content", "content", "replace"])): ex}
            if draw(st.integers(0, 3)) == 0:
                tal["attributes"] = "title s1"
            tpl = tpl + [{"t": "el", "tag": draw(st.sampled_from(["script", "style"])), "attrs": [["type", "text/x"]], "tal": tal, "metal": {},
                          "kids": [{"t": "text", "s": "x"}], "void": False}]
    if mode == "skeleton" and draw(st.integers(0, 3)) == 0:
        # a metal:use-macro whose path leads to plain context DATA (no macro, no template): whatever the interpreter makes of
        # such a value, it is data
        for i in range(draw(st.integers(1, 2))):
            path = draw(st.sampled_from(["s1", "s2", "lst/0", "d1/k_a", "lst2/0", "d1/k_b/k_c", "f1"]))
            how = "use-macro"  # (slot attributes take names, not paths)
            tpl = tpl + [{"t": "el", "tag": "div", "attrs": [["id", "m%d" % i]], "tal": {}, "metal": {how: path},
                          "kids": [{"t": "text", "s": "inside"}], "void": False}]
    c = {"mode": mode, "template": tpl, "ctx": ctx, "minimize": draw(st.booleans())}
    if mode == "restore" and draw(st.booleans()):
        # the include-with-parameter idiom: an element that defines a local AND inserts a compiled template from the
        # context as structure - at top level and inside a repeat
        how = draw(st.sampled_from(["replace", "content"]))
        inc = {"t": "el", "tag": "div", "attrs": [["id", "inc"]], "tal": {"define": "incv s1", how: "structure subtpl"}, "metal": {},
               "kids": [{"t": "text", "s": "x"}], "void": False}
        rep = {"t": "el", "tag": "ul", "attrs": [], "tal": {"repeat": "incit lst"}, "metal": {}, "void": False,
               "kids": [{"t": "el", "tag": "li", "attrs": [], "tal": {"define": "incw incit", how: "structure subtpl"}, "metal": {},
                         "kids": [], "void": False}]}
        c["template"] = tpl + draw(st.sampled_from([[inc], [rep], [inc, rep], [rep, inc]])) + draw(talgen.nodes(0, {}))
        c["include"] = True
    if mode == "restore" and draw(st.integers(0, 3)) == 0:
        # re-entrance: inside a loop and a local define, a context callable expands this very template once more
        c["template"] = c["template"] + [{"t": "el", "tag": "ul", "attrs": [], "tal": {"repeat": "rit lst2", "define": "rv s1"}, "metal": {}, "void": False,
                                          "kids": [{"t": "el", "tag": "li", "attrs": [], "tal": {"content": "recur"}, "metal": {},
                                                    "kids": [{"t": "text", "s": "x"}], "void": False}]}]
        c["recur"] = True
    if mode == "restore" and draw(st.booleans()):
        # loops over things that are not sequences: iterators and generators (empty, non-empty, already exhausted) and an
        # iterable object without a length; inside an element with a local define, alone, and nested in a list loop
        seqs = draw(st.lists(st.sampled_from(["eit", "egen", "git", "xit", "oit", "eoit"]), min_size=1, max_size=3))
        els = []
        for i, sq in enumerate(seqs):
            loop = {"t": "el", "tag": "li", "attrs": [], "tal": {"repeat": "itv%d %s" % (i, sq), "content": "itv%d" % i}, "metal": {},
                    "kids": [{"t": "text", "s": "x"}], "void": False}
            shape = draw(st.sampled_from(["bare", "define", "nested"]))
            if shape == "define":
                loop = {"t": "el", "tag": "ul", "attrs": [], "tal": {"define": "itw%d s1" % i}, "metal": {}, "kids": [loop], "void": False}
            elif shape == "nested":
                loop = {"t": "el", "tag": "ul", "attrs": [], "tal": {"repeat": "ito%d lst2" % i}, "metal": {}, "kids": [loop], "void": False}
            els.append(loop)
        c["template"] = c["template"] + els
        c["iters"] = True
    if mode == "restore" and draw(st.integers(0, 3)) == 0:
        # python paths switched ON, and expressions that bind names of their own (assignment expressions, a comprehension
        # variable, a lambda parameter): at the top level of the template and inside a scope - none of them is a TAL variable
        binders = ["python: (pgvbound := len(lst)) * 2", "python: [pgvx for pgvx in lst2]", "python: (lambda pgvarg: pgvarg)(s1)",
                   "python: [pgvy := 1, pgvy + 1][1]"]
        top = {"t": "el", "tag": "p", "attrs": [], "tal": {"content": draw(st.sampled_from(binders))}, "metal": {}, "kids": [{"t": "text", "s": "x"}], "void": False}
        inner = {"t": "el", "tag": "div", "attrs": [], "tal": {"define": "pyw s1"}, "metal": {}, "void": False,
                 "kids": [{"t": "el", "tag": "b", "attrs": [], "tal": {"condition": draw(st.sampled_from(binders))}, "metal": {}, "kids": [{"t": "text", "s": "y"}], "void": False}]}
        c["template"] = draw(st.sampled_from([[top], [top, inner], [inner, top]])) + c["template"]
        c["pybind"] = True
    return c


def strategy(tier):
    return _case()


def examples(tier):
    return 6000 if tier == "quick" else 150000


# ------------------------------------------------------------------------------------------------ checks

def _inert(v, counter):
    if isinstance(v, str):
        if v == "":
            return v
        counter[0] += 1
        return "Zq%d" % counter[0]
    if isinstance(v, list):
        return [_inert(x, counter) for x in v]
    if isinstance(v, dict):
        return {k: _inert(x, counter) for k, x in v.items()}
    return v


def _skeleton(text):
    return [(t[0], t[1], tuple(sorted(t[2]))) if t[0] == "s" else (t[0], t[1]) for t in talgen.tokenise(text) if t[0] in ("s", "e")]


def _expand(template_nodes, ctx, allow_python=0, extra=None, minimize=False):
    from simpletal import simpleTAL
    text = M.serialise(template_nodes)
    tpl = simpleTAL.compileHTMLTemplate(text, minimizeBooleanAtts=1 if minimize else 0)
    c = c17.make_context(ctx, allow_python)
    for k, v in (extra or {}).items():
        c.addGlobal(k, v)
    out = io.StringIO()
    tpl.expand(c, out)
    return text, out.getvalue(), c


def _check_skeleton(case, ctx):
    mini = bool(case.get("minimize"))
    text, hostile_out, _ = _expand(case["template"], case["ctx"], minimize=mini)
    inert_ctx = _inert(copy.deepcopy(case["ctx"]), [0])
    _, inert_out, _ = _expand(case["template"], inert_ctx, minimize=mini)
    vals = [v for v in _strings(case["ctx"]) if re.search(r"[<>&\"']", v)]
    reached = [v for v in vals if v in _unescape_all(hostile_out)]
    if reached:
        ctx.nontriv()
    ctx.label("skeleton", "hostile-values-reaching:%d" % min(len(reached), 3), "minimizeBooleanAtts:%d" % mini)
    ctx.sample({"template": text[:500]}, cls="skeleton")
    a, b_ = _skeleton(hostile_out), _skeleton(inert_out)
    if a != b_:
        i = next((k for k, (x, y) in enumerate(zip(a, b_)) if x != y), min(len(a), len(b_)))
        return [Fail("data-becomes-markup:%s" % ("attribute" if i < len(a) and i < len(b_) and a[i][:2] == b_[i][:2] else "element"),
                     "template %r: context data changes the output structure at element %d: %r vs %r" % (text[:300], i, a[i:i + 2], b_[i:i + 2]),
                     {"template": text, "hostile_output": hostile_out[:600], "inert_output": inert_out[:600]})]
    return []


def _strings(v):
    if isinstance(v, str):
        yield v
    elif isinstance(v, list):
        for x in v:
            yield from _strings(x)
    elif isinstance(v, dict):
        for x in v.values():
            yield from _strings(x)


def _unescape_all(s):
    import html
    return html.unescape(s)


def _check_python(case, ctx):
    fails = []
    canary = []
    text, out0, _ = _expand(case["template"], case["ctx"], allow_python=0, extra={"canary": canary})
    canary1 = []
    _, out1, _ = _expand(case["template"], case["ctx"], allow_python=1, extra={"canary": canary1})
    ctx.label("python", "python-pos:" + case["pos"], "canary-works:%s" % bool(canary1))
    if canary1:
        ctx.nontriv()
    ctx.sample({"template": text[:400], "pos": case["pos"]}, cls="python" + case["pos"])
    if canary:
        fails.append(Fail("python-evaluated:" + case["pos"], "allowPythonPath=0, yet the python: expression in %r ran (canary %r)" % (text[:300], canary)))
    return fails


def _doc_tokens(text):
    """tokens of a document: valueless attribute == its own name, text decoded, adjacent text merged"""
    return talgen.tokenise(text)


def _expand_doc(doc, minimize=False):
    from simpletal import simpleTAL, simpleTALES
    tpl = simpleTAL.compileHTMLTemplate(doc, minimizeBooleanAtts=1 if minimize else 0)
    out = io.StringIO()
    tpl.expand(simpleTALES.Context(), out)
    return out.getvalue()


def _check_passthrough(case, ctx):
    doc = case["doc"]
    try:
        mini = bool(case.get("minimize"))
        once = _expand_doc(doc, mini)
        twice = _expand_doc(once, mini)
    except Exception as e:
        return [Fail("passthrough-raised:%s" % drive.exc_signature(e), "TAL-free document %r raised %r" % (doc[:300], e))]
    interesting = bool(re.search(r"&[#a-zA-Z]|<!--|<script|<style|<SCRIPT|<\?| (checked|disabled)[ >/]", doc))
    if interesting:
        ctx.nontriv()
    ctx.label("passthrough", "doc:" + ("interesting" if interesting else "plain"))
    ctx.sample({"doc": doc[:500]}, cls="passthrough")
    fails = []
    a, b_ = _doc_tokens(once), _doc_tokens(doc)
    if mini:
        # minimizeBooleanAtts: the value of a boolean attribute is dropped by design - compare such attributes by name
        a, b_ = _boolnorm(a), _boolnorm(b_)
    if a != b_:
        i = next((k for k, (x, y) in enumerate(zip(a, b_)) if x != y), min(len(a), len(b_)))
        w = b_[i] if i < len(b_) else ("?",)
        fails.append(Fail("passthrough-differs:%s" % _kind(w, b_, i),
                          "TAL-free document %r is not reproduced: token %d is %r, document has %r" % (doc[:300], i, a[i:i + 1], b_[i:i + 1]),
                          {"doc": doc, "expanded": once[:800]}))
    if twice != once:
        fails.append(Fail("not-idempotent", "second expansion changes the document %r: %r -> %r" % (doc[:200], once[:200], twice[:200])))
    return fails


def _boolnorm(toks):
    out = []
    for t in toks:
        if t[0] == "s":
            t = (t[0], t[1], {k: (k if k.lower() in ("checked", "disabled") else v) for k, v in t[2].items()})
        out.append(t)
    return out


def _kind(tok, toks, i):
    if tok[0] == "d":
        # text inside a raw-text element?
        for j in range(i - 1, -1, -1):
            if toks[j][0] == "s":
                return "rawtext" if toks[j][1] in ("script", "style") else "text"
            if toks[j][0] == "e":
                break
        return "text"
    return {"s": "starttag", "e": "endtag", "c": "comment", "decl": "doctype", "pi": "pi"}.get(tok[0], tok[0])


def _global_defines(nodes, out):
    for n in nodes:
        if n["t"] == "el":
            d = n["tal"].get("define")
            if d:
                for clause in M.split_clauses(d):
                    bits = clause.split(" ")
                    if len(bits) > 2 and bits[0] == "global":
                        out.add(bits[1])
            _global_defines(n["kids"], out)
    return out


def _check_restore(case, ctx):
    from simpletal import simpleTAL
    text = M.serialise(case["template"])
    tpl = simpleTAL.compileHTMLTemplate(text, minimizeBooleanAtts=1 if case.get("minimize") else 0)
    c = c17.make_context(case["ctx"], allow_python=1 if case.get("pybind") else 0)
    if case.get("include"):
        c.addGlobal("subtpl", simpleTAL.compileHTMLTemplate(
            '<b tal:content="s1">x</b><i tal:define="q s2" tal:content="q">y</i><u tal:repeat="r lst2" tal:content="r">z</u>'))
    if case.get("recur"):
        # a context callable that expands the SAME compiled template again (recursive rendering of a tree, one level deep)
        depth = [0]

        def recur():
            if depth[0] >= 1:
                return "leaf"
            depth[0] += 1
            try:
                tpl.expand(c17.make_context(case["ctx"]), io.StringIO())
            finally:
                depth[0] -= 1
            return "nested"
        c.addGlobal("recur", recur)
    if case.get("iters"):
        class _Iterable:
            def __init__(self, vals):
                self.vals = vals

            def __iter__(self):
                return iter(self.vals)
        spent = iter(["a"])
        next(spent)
        for k, v in (("eit", iter([])), ("egen", (x for x in ())), ("git", (x for x in ("g1", "g<2>"))), ("xit", spent),
                     ("oit", _Iterable(["o1", "o2"])), ("eoit", _Iterable([]))):
            c.addGlobal(k, v)
    before_globals = dict(c.globals)
    before_locals = dict(c.locals)
    out = io.StringIO()
    try:
        tpl.expand(c, out)
    except Exception as e:
        return [Fail("expand-raised:%s" % drive.exc_signature(e), "template %r raised %r" % (text[:300], e))]
    multi, rep = c17._count(case["template"])
    hasdef = "tal:define" in text or " define=" in text
    if rep or hasdef:
        ctx.nontriv()
    ctx.label("restore", "restore-repeats:%d" % min(rep, 3), "restore-define:%s" % hasdef, "restore-include:%s" % bool(case.get("include")),
              "restore-iterator-loops:%s" % bool(case.get("iters")), "restore-re-entrant:%s" % bool(case.get("recur")),
              "restore-python-binders:%s" % bool(case.get("pybind")))
    ctx.sample({"template": text[:500]}, cls="restore")
    fails = []
    if c.locals != before_locals:
        fails.append(Fail("locals-leak", "after expanding %r the context's locals are %r (were %r)" % (text[:300], sorted(c.locals), sorted(before_locals))))
    if c.localStack:
        fails.append(Fail("local-stack-leak", "after expanding %r %d local scopes are still pushed" % (text[:300], len(c.localStack))))
    if c.repeatStack or c.repeatMap or c.globals.get("repeat"):
        fails.append(Fail("repeat-leak", "after expanding %r repeat state is left: stack %d, map %r" % (text[:300], len(c.repeatStack), sorted(c.repeatMap))))
    allowed = _global_defines(case["template"], set())
    for k in set(c.globals) | set(before_globals):
        if k in ("attrs", "repeat"):
            continue
        if k not in before_globals:
            if k not in allowed:
                fails.append(Fail("global-added", "global %r appeared without a global define in %r" % (k, text[:300])))
        elif k not in c.globals:
            fails.append(Fail("global-removed", "global %r vanished" % k))
        elif c.globals[k] is not before_globals[k] and k not in allowed:
            fails.append(Fail("global-changed", "global %r was rebound without a global define in %r" % (k, text[:300])))
    return fails


def check_case(case, ctx):
    import logging
    logging.disable(logging.CRITICAL)
    mode = case["mode"]
    try:
        if mode == "skeleton":
            return _check_skeleton(case, ctx)
        if mode == "python":
            return _check_python(case, ctx)
        if mode == "passthrough":
            return _check_passthrough(case, ctx)
        return _check_restore(case, ctx)
    except Exception as e:
        fr = drive.innermost_repo_frame(e)
        if fr == ("?", "?"):
            raise
        return [Fail("raised:%s:%s" % (mode, drive.exc_signature(e)), "%s case raised %r" % (mode, e))]
