"""C12 - One unservable entry never takes down its directory.

Metamorphic fault enumeration: listing(D with faulty entries) must succeed and equal
listing(D without them), with at most the faulty entries themselves added.
"""
from __future__ import annotations

import errno
import os
import re

from hypothesis import strategies as st

from pgv import clients, drive, gen, world
from pgv.core import Fail

ID = "C12"
CASE_TIMEOUT_S = 20
LEVEL = "fault_enumeration"
RULE = ("Hypothesis draws a directory of 0-8 servable entries (files, HTML files, sub-directories; tame "
        "and hostile names), 1-2 faulty entries (kind x generated name, hence position), a directory "
        "handler, a nesting depth and a protocol form; the listing with the faults injected is compared "
        "entry-by-entry with the listing of the same directory without them.  Every case injects >= 1 "
        "fault, so every case is non-trivial; distinct = distinct case hash.")
ASSUMPTIONS = [
    "stat faults (ENOENT/EACCES after enumeration) and phantom names are injected by wrapping os.stat / "
    "os.listdir in the harness process; the wrapped functions behave as the real ones for all other paths",
    "good entries have names the selector filter accepts and the ignore pattern does not match",
    "a faulty entry may be listed or omitted (the statement allows both); all other entries must be "
    "listed identically",
]

FAULT_KINDS = ["dangling", "loop", "fifo", "sock", "phantom", "enoent", "eacces", "dotdot", "dotbs", "bsbs", "linktofile",
               # an entry removed while the listing is being built: its first stat (or first two) still succeeds
               "vanish1", "vanish2"]
FORMS = ["gopher", "gophers", "gplus", "gdollar", "http", "https", "wap", "gemini", "spartan"]


def _fault_name(kind, base):
    if kind == "dotdot":
        return base + "..b"
    if kind == "dotbs":
        return base + ".\\b"
    if kind == "bsbs":
        return base + "\\\\b"
    return base


@st.composite
def _case(draw):
    n = draw(st.sampled_from([0, 0, 1, 2, 3, 4, 5, 6, 7, 8]))  # also directories that hold nothing BUT unservable entries
    good = draw(st.lists(
        st.tuples(gen.names(), st.sampled_from(["f", "f", "d", "h"]), gen.text_content),
        min_size=n, max_size=n, unique_by=lambda t: t[0] + (".html" if t[1] == "h" else "")))
    nf = draw(st.sampled_from([1, 1, 2]))
    used = {g[0] + (".html" if g[1] == "h" else "") for g in good}
    faults = []
    for _ in range(nf):
        kind = draw(st.sampled_from(FAULT_KINDS))
        base = draw(st.one_of(gen.tame_base, gen.tame_base, gen.hostile_name(max_size=6),
                              st.sampled_from(["50%off", "100%", "%s", "%(x)s", "a%", "{0}", "{x}", "$HOME", "`id`"]))
                    .filter(lambda b: gen.servable_name(b)))
        # names that make a particular handler look at the entry first (gophermap, HTML title, mailbox, PYG, TAL, ZIP,
        # compressed) and dot-names (link files of the UMN handler)
        base = draw(st.sampled_from(["", "", "."])) + base + draw(st.sampled_from(
            ["", "", "", ".gophermap", ".html", ".mbox", ".pyg", ".tal", ".zip", ".gz", ".txt", ".abstract"]))
        name = _fault_name(kind, base)
        if kind in ("dangling", "loop", "fifo", "sock", "linktofile") and draw(st.integers(0, 2 if kind in ("fifo", "sock", "linktofile") else 5)) == 0:
            # the names the directory handlers look for themselves
            name = draw(st.sampled_from([".cap", ".cap", ".names", ".Links", ".abstract", "gophermap", ".cache.pygopherd.dir"]))
        if kind == "linktofile" and name != ".cap":
            kind = "dangling"
        if kind in ("enoent", "eacces", "vanish1", "vanish2") and any(name.endswith(e) and name[:-len(e)] in used for e in (".abstract", ".keywords", ".ask", ".3d")):
            # it would be the (readable) sidecar of a good entry: whether its text shows is not this property's business
            name = "q" + name
        if name in used:
            name = "q" + name
        if name in used:
            continue
        used.add(name)
        faults.append([kind, name])
    if not faults:
        faults.append(["dangling", "zzdangling"])
    return {
        "good": [list(g) for g in good],
        "faults": faults,
        "handler": draw(st.sampled_from(["umn", "umn", "dir"])),
        "form": draw(st.sampled_from(FORMS)),
        "depth": draw(st.sampled_from([0, 1, 1, 2])),
        # a link file that gives the faulty entries (and one good entry) a nicer title: 'Path=./name' blocks
        "titles": draw(st.sampled_from([False, False, True])),
        # the full handler list (ZIP, scripts, PYG, TAL, URL type rewriter ...), and directories at or below a top-level
        # directory with a one-character name (where the type rewriter reads '/1/foo' as type 1 + '/foo')
        "fulllist": draw(st.booleans()), "again": draw(st.sampled_from([False, False, True])), "gmap": draw(st.sampled_from([False, False, False, True])),
        "top": draw(st.sampled_from(["sub0", "sub0", "1", "0", "h"])),
    }


def strategy(tier):
    return _case()


def examples(tier):
    return 1500 if tier == "quick" else 40000


def _spec(case, with_faults):
    prefix = "/".join([(case.get("top", "sub0") if i == 0 else "sub%d" % i) for i in range(case["depth"])])
    pre = prefix + "/" if prefix else ""
    spec = []
    if prefix:
        spec.append([prefix, "d", None])
    if case.get("titles") and case["handler"] == "umn":
        named = [nm for _, nm in case["faults"]] + [g[0] + (".html" if g[1] == "h" else "") for g in case["good"][:1]]
        named = [nm for nm in named if not re.search(r"[\t\r\n]", nm) and nm == nm.strip() and not nm.startswith(".")]
        if named:
            spec.append([pre + ".zz-titles", "f", "\n".join("Name=Nice title %d\nPath=./%s\n" % (i, nm) for i, nm in enumerate(named))])
    if case.get("gmap") and "gophermap" not in [nm for _, nm in case["faults"]] + [g[0] for g in case["good"]]:
        # the directory is a gophermap menu whose lines name every entry, the faulty ones included (a menu may well link to
        # something that has since become unservable): each line is one entry, the menu as a whole must still come
        allnames = [g[0] + (".html" if g[1] == "h" else "") for g in case["good"]] + [nm for _, nm in case["faults"]]
        allnames = [nm for nm in allnames if not re.search(r"[\t\r\n]", nm) and nm == nm.strip()]
        spec.append([pre + "gophermap", "f", "A menu\n" + "".join("0Entry %d\t%s\n" % (i, nm) for i, nm in enumerate(allnames))])
    for name, kind, content in case["good"]:
        if kind == "d":
            spec.append([pre + name, "d", None])
            spec.append([pre + name + "/inner.txt", "f", content])
        elif kind == "h":
            spec.append([pre + name + ".html", "f", "<html><title>T %s</title>%s</html>" % (name[:3].replace("<", ""), content)])
        else:
            spec.append([pre + name, "f", content])
    shim_stat = {}
    phantoms = []
    for kind, name in case["faults"]:
        if kind == "dangling":
            if with_faults:
                spec.append([pre + name, "l", "nonexistent-target"])
        elif kind == "loop":
            if with_faults:
                spec.append([pre + name, "l", name])
        elif kind == "linktofile":
            # '.cap' (where per-file overrides are looked up) exists but is a link to a regular file, not a directory
            if with_faults:
                g0 = case["good"][0] if case["good"] else None
                spec.append([pre + name, "l", g0[0] + (".html" if g0[1] == "h" else "") if g0 and g0[1] != "d" else "nonexistent-target"])
        elif kind in ("fifo", "sock"):
            if with_faults:
                spec.append([pre + name, kind, None])
        elif kind == "phantom":
            phantoms.append(name)
        elif kind in ("vanish1", "vanish2"):
            if with_faults:
                spec.append([pre + name, "f", "victim\n"])
                shim_stat[pre + name] = (errno.ENOENT, int(kind[-1]))
        elif kind in ("enoent", "eacces"):
            if with_faults:
                spec.append([pre + name, "f", "victim\n"])
                shim_stat[pre + name] = errno.ENOENT if kind == "enoent" else errno.EACCES
        else:
            if with_faults:
                spec.append([pre + name, "f", "filtered\n"])
    return spec, "/" + prefix if prefix else "/", shim_stat, phantoms


class _Shims:
    def __init__(self, root, dirsel, shim_stat, phantoms):
        self.rootb = os.fsencode(root)
        self.stat_fail = {os.path.join(self.rootb, world.b(p)): e for p, e in shim_stat.items()}
        d = dirsel.strip("/")
        self.dirb = os.path.join(self.rootb, world.b(d)) if d else self.rootb
        self.phantoms = [world.b(p) for p in phantoms]

    def __enter__(self):
        self.o_stat, self.o_listdir = os.stat, os.listdir
        o_stat, o_listdir = self.o_stat, self.o_listdir
        stat_fail, dirb, phantoms = self.stat_fail, self.dirb, self.phantoms
        calls = {}

        def stat(path, *a, **k):
            try:
                pb = os.fsencode(path) if not isinstance(path, int) else None
            except TypeError:
                pb = None
            if pb is not None and pb in stat_fail:
                f_ = stat_fail[pb]
                if isinstance(f_, tuple):
                    # fails from the (n+1)-th look onwards
                    calls[pb] = calls.get(pb, 0) + 1
                    if calls[pb] > f_[1]:
                        raise OSError(f_[0], os.strerror(f_[0]), path)
                    return o_stat(path, *a, **k)
                raise OSError(f_, os.strerror(f_), path)
            return o_stat(path, *a, **k)

        def listdir(path=".", *a, **k):
            res = o_listdir(path, *a, **k)
            try:
                pb = os.fsencode(path)
            except TypeError:
                return res
            if pb.rstrip(b"/") == dirb.rstrip(b"/") and phantoms:
                if isinstance(path, bytes):
                    res = list(res) + phantoms
                else:
                    res = list(res) + [os.fsdecode(p) for p in phantoms]
            return res

        os.stat, os.listdir = stat, listdir
        return self

    def __exit__(self, *a):
        os.stat, os.listdir = self.o_stat, self.o_listdir


def _config(root, handler, full=False, cache=False):
    over = {"handlers.dir.DirHandler::cachetime": "180" if cache else "0"}
    cfg = drive.make_config(root, "full" if full else "shipped", **over)
    if handler == "dir":
        h = cfg.get("handlers.HandlerMultiplexer", "handlers").replace("UMN.UMNDirHandler", "dir.DirHandler")
        cfg.set("handlers.HandlerMultiplexer", "handlers", h)
    return cfg


def _listing(case, with_faults):
    spec, dirsel, shim_stat, phantoms = _spec(case, with_faults)
    d, root = world.build(spec)
    try:
        cfg = _config(root, case["handler"], case.get("fulllist", False), bool(case.get("again")))
        form = case["form"]
        req = clients.encode(form, world.b(dirsel))
        # 'again': with the directory cache on, the listing is requested twice - the second request finds the cache the
        # first one wrote and must succeed like the first (whatever it looks at to decide whether the cache is still good)
        for _ in range(2 if case.get("again") else 1):
            if with_faults:
                with _Shims(root, dirsel, shim_stat, phantoms):
                    r = drive.serve(cfg, req, tls=clients.FORMS[form][0])
            else:
                r = drive.serve(cfg, req, tls=clients.FORMS[form][0])
        return r, dirsel
    finally:
        world.rmtree(d)


def check_case(case, ctx):
    form = case["form"]
    kinds = sorted(k for k, _ in case["faults"])
    ksig = "+".join(kinds)
    allnames = sorted([g[0] + (".html" if g[1] == "h" else "") for g in case["good"]] + [f[1] for f in case["faults"]])
    for k, nm in case["faults"]:
        i = allnames.index(nm)
        pos = "first" if i == 0 else ("last" if i == len(allnames) - 1 else "middle")
        ctx.label("fault:" + k, "pos:" + pos)
    ctx.label("form:" + form, "handler:" + case["handler"], "nfaults:%d" % len(case["faults"]), "second-listing-from-cache:%s" % bool(case.get("again")), "gophermap-menu:%s" % bool(case.get("gmap")))
    ctx.nontriv()
    ctx.sample(cls=ksig)

    ra, dirsel = _listing(case, True)
    rb, _ = _listing(case, False)
    if ra.escaped is not None:
        return [Fail("escaped:%s:%s" % (drive.exc_signature(ra.escaped), kinds[0]),
                     "exception escaped the connection handler: %r" % (ra.escaped,))]
    pa = clients.parse_response(form, ra.response, expect_menu=True)
    pb = clients.parse_response(form, rb.response, expect_menu=True)
    if not pb.ok:
        if case.get("titles"):
            # the twin without the faulty entries still has the link file that titles them: its blocks then name entries
            # that do not exist (deleted since) - one more unservable thing that must not take the listing down
            return [Fail("listing-failed:stale-title-block", "listing of %s, whose link file titles entries that do not exist, failed: %r" % (
                dirsel, (pb.errmsg or rb.response[:120])), {"logs": rb.logs[-3:]})]
        # the fault-free twin must list; if it does not the generator is wrong
        raise AssertionError("baseline listing failed: %r %r" % (rb.response[:200], rb.logs))
    if not pa.ok or pa.problems:
        return [Fail("listing-failed:" + kinds[0],
                     "listing of %s with faulty entr%s %r failed: %r" % (
                         dirsel, "y" if len(kinds) == 1 else "ies", case["faults"],
                         (pa.errmsg or ra.response[:120])),
                     {"response": world.u(ra.response[:300]), "logs": ra.logs[-3:]})]
    ea = clients.parse_listing(form, pa)
    eb = clients.parse_listing(form, pb)
    base = dirsel if dirsel != "/" else ""
    faulty_sels = {world.b(base + "/" + nm) for _, nm in case["faults"]}
    if case.get("fulllist") and re.match(r"^/[^/](/|$)", base):
        # below a one-character top-level directory the URL type rewriter (full list) reads '/1/rest' as type 1 + '/rest':
        # a faulty entry may then be listed under that reading of its selector
        faulty_sels |= {world.b((base + "/" + nm)[2:]) for _, nm in case["faults"]}

    def key(e):
        return (e["kind"], e["name"], e["target"])

    fa = [key(e) for e in ea if not (e["target"] and e["target"][0] == "local" and e["target"][1] in faulty_sels)]
    # (a link file may give a faulty name a title: that added link is about the faulty entry too, on both sides)
    fb = [key(e) for e in eb if not (e["target"] and e["target"][0] == "local" and e["target"][1] in faulty_sels)]
    if fa != fb:
        missing = [k for k in fb if k not in fa]
        extra = [k for k in fa if k not in fb]
        return [Fail("entries-differ:" + kinds[0],
                     "listing with faults differs from listing without: missing=%r extra=%r" % (missing[:3], extra[:3]),
                     {"with": world.u(ra.response[:500]), "without": world.u(rb.response[:500])})]
    return []
