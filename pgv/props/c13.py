"""C13 - Generated HTML, WML and Gopher+ blocks cannot be subverted by data."""
from __future__ import annotations

import html
import re
import urllib.parse

from hypothesis import strategies as st

from pgv import clients, drive, sites, world
from pgv.core import Fail

ID = "C13"
LEVEL = "exploration"
RULE = ("A payload over < > & \" ' CR LF and tag/attribute/block-header fragments is placed in one echo position (request "
        "selector of an error page, /URL: redirect request, file name, directory name, top-level names and link selectors in the "
        "reserved 'URL:' namespace, HTML <title>, mail Subject, sidecar "
        ".abstract lines, link-file Name=/Abstract=/Path=/Host=, gophermap description/selector/URL: selector/host, lines "
        "of a text file converted to WML) and the page is fetched through HTTP, HTTPS, WAP (both detections) or Gopher+ "
        "($ and !). Oracle: the same page built with an inert alphanumeric placeholder in the same role must tokenise "
        "(lenient html.parser) to the same sequence of (tag, attribute names); HTTP header names are the placeholder's "
        "and no header value carries payload bytes; in Gopher+ listings the sequence of lines starting with '+' is the "
        "placeholder's. Non-trivial: the payload has >= 1 metacharacter and is found in the page after un-escaping / "
        "percent-decoding; distinct = (position, payload, form).")
ASSUMPTIONS = [
    "WML is tokenised leniently (control characters would make it ill-formed XML without changing its structure)",
    "CR/LF in file names is exercised for HTTP/WAP only; Gopher-family names and gophermap/link-file fields cannot carry "
    "TAB/CR/LF",
    "if the payload turns the request into a not-found (e.g. quotes in a URL: selector are refused) the page is compared "
    "with the placeholder's not-found page instead",
]

FRAGS = ["<", ">", "&", "\"", "'", "<script>alert(1)</script>", "</TT><script>", "\" onmouseover=\"x", "' onclick='x", "<b>",
         "&lt;", "&amp;", "&#60;", "-->", "<!--", "]]>", "</a>", "<a href=\"http://evil/\">", "</card>", "<do type=\"accept\">",
         # line breaks and TABs written as character references (whatever decodes them must do so before control characters
         # are taken out)
         "&#13;&#10;+ABSTRACT:&#13;&#10; forged", "&#xA;+ADMIN:&#xa;", "&NewLine;+VIEWS:", "&#9;/x&#9;evil.example&#9;70", "&Tab;",
         "$(sr0)", "+INFO: 1fake\tfake\tfake\t70", "+ADMIN:", "+VIEWS:", "\r\n", "\n", "\r\nSet-Cookie: x=1", "\r\n\r\n<html>",
         "%0d%0a", "%22", "%3c", "abc", "x y", "\xc3\xa9", "\xff",
         # compatibility characters that a Unicode normalisation or an "ASCII-fying" step turns INTO markup characters
         # (full-width < > " = / &, not-less-than) - after the escaping has been done
         "\xef\xbc\x9cb\xef\xbc\x9e", "\xef\xbc\x9cscript\xef\xbc\x9e", "\xef\xbc\x82 onx\xef\xbc\x9d\xef\xbc\x82", "\xe2\x89\xaeb\xe2\x89\xaf",
         "\xef\xbc\x86lt;", "\xef\xbc\x9c\xef\xbc\x8fa\xef\xbc\x9e",
         # text that a regular-expression replacement template, a %-format or str.format would expand
         "\\074script\\076", "\\042\\076", "\\g<0>", "\\1", "\\n", "\\d", "%s", "%(x)s", "{0}", "{x}"]
# one payload in four is built the way an injection is: the terminator of some context (a CDATA section, a comment, a title,
# a script, an attribute value ...) followed by an element
TERMINATORS = ["]]>", "-->", "</title>", "</TITLE>", "</script>", "</style>", "</textarea>", "</p>", "</a>", "</TT>", "</PRE>", "\">", "'>", ">"]
payload_st = st.one_of(
    st.lists(st.sampled_from(FRAGS), min_size=1, max_size=4).map("".join),
    st.lists(st.sampled_from(FRAGS), min_size=1, max_size=4).map("".join),
    st.lists(st.sampled_from(FRAGS), min_size=1, max_size=4).map("".join),
    st.builds(lambda t, e, rest: t + e + rest, st.sampled_from(TERMINATORS),
              st.sampled_from(["<b>", "<a href=\"http://evil/\">x</a>", "<img src=x onerror=alert(1)>", "<script>alert(1)</script>", "<i>x</i>"]),
              st.sampled_from(["", "", "abc", "<!--", "<![CDATA["])))


def _pq(p, enc):
    """one payload in four arrives already percent-encoded (once or twice): whatever decodes it on the way to the page has
    to do so BEFORE the page's escaping, not after it"""
    if enc >= 1:
        p = urllib.parse.quote(p, safe="", encoding="latin-1")
    if enc >= 2:
        p = urllib.parse.quote(p, safe="")
    return p


POSITIONS = ["noname-path", "noname-remote-path", "selector-error", "url-redirect", "filename", "dirname", "html-title", "html-title-raw", "subject", "abstract-sidecar",
             "linkfile-name", "linkfile-abstract", "linkfile-path", "linkfile-urlpath", "linkfile-host", "map-desc", "map-sel",
             "map-url", "map-host", "wap-text", "search-item-path", "keywords-sidecar",
             "url-dirname", "url-filename", "linkfile-url-noscheme", "map-url-noscheme", "subject-qenc", "subject-b64",
             "map-type", "linkfile-type", "cap-type", "dir-search",
             # request HEADER values (Host, User-Agent, Referer, Accept-Language) of a directory request
             "request-header"]
HTML_FORMS = ["http", "https", "wap", "waphdr"]
GP_FORMS = ["gdollar", "gbang"]
GP_POSITIONS = {"filename", "html-title", "html-title-raw", "subject", "subject-qenc", "subject-b64", "abstract-sidecar", "linkfile-name", "linkfile-abstract", "map-desc",
                "keywords-sidecar", "dirname"}


@st.composite
def _case(draw):
    pos = draw(st.sampled_from(POSITIONS))
    forms = HTML_FORMS + (GP_FORMS if pos in GP_POSITIONS else [])
    if pos == "wap-text":
        forms = ["wap", "waphdr"]
    if pos in ("dir-search", "request-header"):
        forms = ["http", "https", "wap", "waphdr"]
    pst = payload_st
    if pos == "html-title-raw":
        # (half of these: a line break written as a character reference, then something that would pass for a line of its own)
        pst = st.one_of(payload_st, st.builds(lambda a, b, c: a + b + c, st.sampled_from(["News", "x", ""]),
                                              st.sampled_from(["&#13;&#10;", "&#xA;", "&NewLine;", "&#10;", "&#x0d;&#x0a;"]),
                                              st.sampled_from(["+ABSTRACT:&#10; forged", "+ADMIN:", "+INFO: 1fake&#9;fake&#9;fake&#9;70", "+VIEWS:", "1fake&Tab;/&Tab;evil.example&Tab;70"])))
    return {"pos": pos, "payload": _pq(draw(pst), draw(st.sampled_from([0, 0, 0, 0, 0, 0, 1, 2]))),
            "form": draw(st.sampled_from(forms)), "n": draw(st.integers(0, 999)),
            "fill": draw(st.sampled_from([0, 0, 13])),
            # the administrator's page header (option 'pagetopper', into which the page's gopher URL is interpolated) may quote
            # its attribute with apostrophes, or not at all
            "topper": draw(st.sampled_from([None, None, None, "apos", "bare"]))}


def strategy(tier):
    return _case()


def examples(tier):
    return 10000 if tier == "quick" else 200000


def _fit(pos, p, fam):
    """adapt the payload to what the position can physically hold; returns None if nothing is left"""
    if pos in ("filename", "dirname", "url-dirname", "url-filename"):
        p = p.replace("/", "").replace("\0", "")
        if fam in ("gdollar", "gbang"):
            p = re.sub(r"[\t\r\n]", "", p)
        p = p.strip()
        if p in ("", ".", "..") or ".." in p or "./" in p or p.startswith(".") or p.endswith(".") or p.endswith("~"):
            return None
        if len(p) > 200:
            return None  # a file name holds 255 bytes
        dec = p.encode("latin-1").decode("utf-8", "surrogateescape")
        if dec != dec.strip():
            return None
        return p
    if pos in ("linkfile-name", "linkfile-abstract", "linkfile-path", "linkfile-urlpath", "linkfile-host", "map-desc", "map-sel",
               "map-url", "map-host", "subject", "search-item-path", "noname-path", "noname-remote-path",
               "linkfile-url-noscheme", "map-url-noscheme"):
        p = re.sub(r"[\t\r\n]", " ", p).strip()
        if pos in ("linkfile-path", "map-sel", "search-item-path", "noname-path", "noname-remote-path"):
            p = p.replace("..", "").replace("//", "/").replace("./", "").strip("/").strip()
            if p.startswith("URL:"):
                return None
        if pos == "linkfile-abstract":
            p = p.rstrip("\\")
        return p or None
    if pos in ("map-type", "linkfile-type", "cap-type"):
        # the one-character item type, taken from content
        c = [ch for ch in p if ch in "\"<>&'`=;"]
        return c[0] if c else None
    if pos == "dir-search":
        # a search string sent RAW in the query of a directory request (a careless client does not percent-encode it)
        p = re.sub(r"[ \t\r\n\0]", "", p)
        return p or None
    if pos in ("selector-error", "url-redirect"):
        return p.replace("\0", "")
    if pos == "request-header":
        p = re.sub(r"[\r\n\0]", "", p).strip()  # (a header value ends at the line end)
        return p or None
    return p


def _build(pos, v, n, fill=0):
    """tree spec + selector to request (latin-1 str) for value v in position pos; fill = number of ordinary entries that
    precede the decorated one in the listing (WAP numbers only the first 12 links)"""
    spec = [["d/zz.txt", "f", "plain\n"]]
    sel = "/d"
    fillmap = "".join("0Filler %02d\tzz.txt\n" % i for i in range(fill))
    for i in range(fill):
        if not pos.startswith("map-"):
            spec.append(["d/A%02d.txt" % i, "f", "filler\n"])
    if pos == "selector-error":
        sel = "/d/nosuch-" + v
    elif pos == "url-redirect":
        sel = "/URL:http://www.example.org/" + v
    elif pos == "filename":
        spec.append(["d/" + v, "f", "content\n"])
    elif pos == "dirname":
        spec = [[v + "/zz.txt", "f", "plain\n"]]
        sel = "/" + v
    elif pos == "url-dirname":
        # names in the reserved 'URL:' namespace (a name cannot contain '://', so these are never real URL: links)
        spec = [["URL:" + v + "/zz.txt", "f", "plain\n"]]
        sel = "/URL:" + v
    elif pos == "url-filename":
        spec = [["URL:" + v, "f", "content\n"], ["zz.txt", "f", "plain\n"]] + [["A%02d.txt" % i, "f", "filler\n"] for i in range(fill)]
        sel = "/"
    elif pos == "linkfile-url-noscheme":
        spec.append(["d/.links", "f", "Name=Mail\nType=h\nPath=URL:%s\nHost=+\nPort=+\n" % v])
    elif pos == "map-url-noscheme":
        spec.append(["d/gophermap", "f", fillmap + "hMail\tURL:%s\n" % v])
    elif pos == "html-title":
        spec.append(["d/page.html", "f", "<html><head><title>%s</title></head><body></body></html>\n" % html.escape(v)])
    elif pos == "html-title-raw":
        # the payload is HTML SOURCE between the title tags (its author may write character references, or markup that ends
        # the title early): whatever text the server takes from it is text
        spec.append(["d/page.html", "f", "<html><head><title>%s</title></head><body></body></html>\n" % v])
    elif pos == "subject":
        spec = [["box.mbox", "f", sites.mbox_text([v or "x", "second"])]]
        sel = "/box.mbox"
    elif pos in ("subject-qenc", "subject-b64"):
        # RFC 2047 encoded words can carry any byte, CR and LF included, through a well-formed header line
        import base64
        raw = v.encode("latin-1")
        if pos == "subject-qenc":
            word = "=?utf-8?q?" + "".join(chr(c) if (48 <= c <= 57 or 65 <= c <= 90 or 97 <= c <= 122) else "=%02X" % c for c in raw) + "?="
        else:
            word = "=?utf-8?b?" + base64.b64encode(raw).decode() + "?="
        spec = [["box.mbox", "f", sites.mbox_text([word, "second"])]]
        sel = "/box.mbox"
    elif pos == "abstract-sidecar":
        spec.append(["d/zz.txt.abstract", "f", v + "\n"])
    elif pos == "keywords-sidecar":
        spec.append(["d/zz.txt.keywords", "f", v + "\n"])
    elif pos == "linkfile-name":
        spec.append(["d/.links", "f", "Name=%s\nType=1\nPath=/d\nHost=+\nPort=+\n" % v])
    elif pos == "linkfile-abstract":
        spec.append(["d/.links", "f", "Name=Entry\nType=1\nPath=/d\nHost=+\nPort=+\nAbstract=%s\n" % v])
    elif pos == "linkfile-path":
        spec.append(["d/.links", "f", "Name=Entry\nType=0\nPath=/%s\nHost=+\nPort=+\n" % v])
    elif pos == "noname-path":
        # a link block without Name=: HTML/WML pages show the selector instead
        spec.append(["d/.links", "f", "Type=0\nPath=/%s\nHost=+\nPort=+\n" % v])
    elif pos == "noname-remote-path":
        spec.append(["d/.links", "f", "Type=1\nPath=/%s\nHost=other.example\nPort=70\n" % v])
    elif pos == "search-item-path":
        spec.append(["d/.links", "f", "Name=Search\nType=7\nPath=/%s\nHost=+\nPort=+\n" % v])
    elif pos == "linkfile-urlpath":
        spec.append(["d/.links", "f", "Name=Web\nType=h\nPath=URL:http://www.example.org/%s\nHost=+\nPort=+\n" % v])
    elif pos == "linkfile-host":
        spec.append(["d/.links", "f", "Name=Far\nType=1\nPath=/x\nHost=%s\nPort=70\n" % v])
    elif pos == "map-desc":
        spec.append(["d/gophermap", "f", fillmap + "0%s\tzz.txt\n" % v])
    elif pos == "map-sel":
        spec.append(["d/gophermap", "f", fillmap + "0Entry\t%s\n" % v])
    elif pos == "map-url":
        spec.append(["d/gophermap", "f", fillmap + "hWeb\tURL:http://www.example.org/%s\n" % v])
    elif pos == "map-type":
        spec.append(["d/gophermap", "f", fillmap + "%sTyped entry\tzz.txt\n%sRemote typed\t/x\tother.example\t70\n" % (v[0], v[0])])
    elif pos == "linkfile-type":
        spec.append(["d/.links", "f", "Name=Typed\nType=%s\nPath=/d/zz.txt\nHost=+\nPort=+\n" % v[0]])
    elif pos == "cap-type":
        spec.append(["d/.cap/zz.txt", "f", "Type=%s\nName=Capped\n" % v[0]])
    elif pos == "map-host":
        spec.append(["d/gophermap", "f", fillmap + "1Far\t/x\t%s\t70\n" % v])
    elif pos == "wap-text":
        spec.append(["d/t.txt", "f", "first line\n%s\nlast line\n" % v])
        sel = "/d/t.txt"
    return spec, sel


_TOPPERS = {"apos": "Browse <A HREF='GOPHERURL'>this page in Gopher</A>.<HR>", "bare": "Browse <A HREF=GOPHERURL>this page in Gopher</A>.<HR>"}
_topper = [None]  # set per case (both fetches of a case use the same page header)


def _fetch(pos, v, n, form, fill=0):
    spec, sel = _build(pos, v, n, fill)
    base, root = world.build(spec)
    try:
        over = {"handlers.dir.DirHandler::cachetime": "0"}
        if _topper[0]:
            over["protocols.http.HTTPProtocol::pagetopper"] = _TOPPERS[_topper[0]]
        cfg = drive.make_config(root, "shipped", **over)
        tls, fam = clients.FORMS[form]
        selb = world.b(sel)
        if form == "gbang":
            # item info of the decorated item
            target = {"filename": "/d/" + v, "html-title": "/d/page.html", "html-title-raw": "/d/page.html", "abstract-sidecar": "/d/zz.txt",
                      "keywords-sidecar": "/d/zz.txt", "subject": "/box.mbox|/MBOX-MESSAGE/1", "dirname": "/" + v,
                      "subject-qenc": "/box.mbox|/MBOX-MESSAGE/1", "subject-b64": "/box.mbox|/MBOX-MESSAGE/1"}.get(pos)
            if target is None:
                return None
            selb = world.b(target)
        if fam in ("gdollar", "gbang") and re.search(rb"[\t\r\n]", selb):
            return None
        req = clients.encode(form, selb)
        if pos == "dir-search":
            line, rest = req.split(b"\r\n", 1)
            meth, path, ver = line.split(b" ")
            req = meth + b" " + path + b"?searchrequest=" + world.b(v) + b" " + ver + b"\r\n" + rest
        if pos == "request-header":
            hv = world.b(v)
            req = req.replace(b"Host: gopher.example\r\n", b"Host: " + hv + b"\r\nUser-Agent: " + hv + b"\r\nReferer: " + hv +
                              b"\r\nAccept-Language: " + hv + b"\r\n")
        r = drive.serve(cfg, req, tls=tls)
        return r
    finally:
        world.rmtree(base)


def _skeleton(body):
    out = []
    for k, v, a in clients.tokens(body):
        if k == "s":
            out.append(("<", v, tuple(sorted(n for n, _ in a))))
        elif k == "e":
            out.append(("/", v))
        elif k in ("c", "decl", "pi"):
            out.append((k,))
    return out


def _found(body, payload):
    """payload visible in a text node or attribute value after un-escaping / percent-decoding"""
    pb = world.b(payload)
    collapsed = re.sub(rb"\s+", b" ", pb).strip()
    for k, v, a in clients.tokens(body):
        if k == "d":
            t = v.encode("utf-8", "surrogateescape")
            if pb in t or (collapsed and collapsed in re.sub(rb"\s+", b" ", t)):
                return "text"
        elif k == "s":
            for n, val in a:
                if val is None:
                    continue
                t = val.encode("utf-8", "surrogateescape")
                if pb in t or pb in urllib.parse.unquote_to_bytes(t) or (collapsed and collapsed in re.sub(rb"\s+", b" ", t)):
                    return "attr"
    return None


def check_case(case, ctx):
    pos, form = case["pos"], case["form"]
    tls, fam = clients.FORMS[form]
    _topper[0] = case.get("topper")
    if _topper[0]:
        ctx.label("pagetopper:" + _topper[0])
    p = _fit(pos, case["payload"], fam)
    if p is None:
        ctx.label("payload-unfit")
        return []
    q = "Zq%dx" % case["n"]
    if pos in ("abstract-sidecar", "keywords-sidecar", "wap-text"):
        # same line structure as the payload, every non-blank line replaced by the inert token
        q = "\n".join((q if l.strip() else "") for l in p.splitlines())
        if p.endswith(("\n", "\r")):
            q += "\n"
    fill = case.get("fill", 0) if pos not in ("dirname", "url-dirname", "subject", "subject-qenc", "subject-b64", "wap-text", "selector-error", "url-redirect") else 0
    rp = _fetch(pos, p, case["n"], form, fill)
    if rp is None:
        return []
    rq = _fetch(pos, q, case["n"], form, fill)
    if fill:
        ctx.label("with-13-fillers")
    ctx.label("pos:" + pos, "form:" + form)
    fails = []
    if rp.escaped is not None or [c for c in rp.exception_classes() if c != "FileNotFound"]:
        return [Fail("internal-error:%s:%s" % (pos, (rp.handled_signatures() or ["escaped"])[-1]),
                     "payload %r in %s via %s: internal error %r" % (p, pos, form, rp.logs[-1:]))]
    meta = any(c in p for c in "<>&\"'\r\n+")
    if fam in ("gdollar", "gbang"):
        pa = clients.parse_response(form, rp.response)
        pb_ = clients.parse_response(form, rq.response)
        if not pa.ok or not pb_.ok:
            if pa.ok != pb_.ok:
                # payload made the item unservable (e.g. name the selector filter rejects): not this property's subject
                ctx.label("outcome-differs")
            return []
        ha = [l.split(b":")[0] for l in pa.body.split(b"\r\n") if l.startswith(b"+")]
        hb = [l.split(b":")[0] for l in pb_.body.split(b"\r\n") if l.startswith(b"+")]
        bad = [l for l in pa.body.split(b"\r\n") if l and not l.startswith(b"+") and not l.startswith(b" ")]
        if meta and world.b(p.split("\n")[0].split("\r")[0])[:12] in pa.body:
            ctx.nontriv((pos, p, form))
            ctx.sample({"pos": pos, "payload": p, "form": form}, cls=pos + form)
        def groups(hs):
            out = []
            for h in hs:
                if h == b"+INFO" or not out:
                    out.append([])
                out[-1].append(h)
            return sorted(map(tuple, out))  # entries may sort differently by name: compare item by item, unordered
        if groups(ha) != groups(hb):
            fails.append(Fail("gplus-headers:%s" % pos, "payload %r in %s changes the block headers of the %s reply: %r vs %r" % (
                p, pos, form, ha, hb), {"response": world.u(pa.body[:500])}))
        if bad:
            fails.append(Fail("gplus-unprefixed:%s" % pos, "payload %r in %s: line %r is neither a block header nor indented" % (p, pos, bad[0])))
        return fails
    pa = clients.parse_response(form, rp.response)
    pb_ = clients.parse_response(form, rq.response)
    if pa.problems:
        return [Fail("http-malformed:%s" % pos, "payload %r in %s via %s: reply is not valid HTTP: %r" % (p, pos, form, pa.problems[:2]),
                     {"response": world.u(rp.response[:400])})]
    # header block: the placeholder's names, values free of payload
    if [h for h, _ in pa.headers] != [h for h, _ in pb_.headers] and pa.status == pb_.status:
        fails.append(Fail("http-headers:%s" % pos, "payload %r in %s changes the header block: %r vs %r" % (p, pos, pa.headers, pb_.headers)))
    for h, val in pa.headers:
        for frag in (world.b(p), b"Set-Cookie", b"<html>"):
            if len(frag) >= 3 and frag in val:
                fails.append(Fail("http-header-value:%s" % pos, "header %r carries payload bytes: %r" % (h, val)))
    baseline = rq
    if (pa.kind == "error") != (pb_.kind == "error"):
        # compare with the placeholder's not-found page of the same protocol
        baseline = _fetch("selector-error", q, case["n"], form)
        ctx.label("outcome-differs")
    if pa.mime not in (b"text/html", b"text/vnd.wap.wml"):
        return fails
    sa, sb = _skeleton(pa.body), _skeleton(clients.parse_response(form, baseline.response).body)
    where = _found(pa.body, p)
    if meta and where:
        ctx.nontriv((pos, p, form))
        ctx.label("reaches:" + where)
        ctx.sample({"pos": pos, "payload": p, "form": form}, cls=pos + form)
    if sa != sb:
        i = next((k for k, (a, b_) in enumerate(zip(sa, sb)) if a != b_), min(len(sa), len(sb)))
        fails.append(Fail("structure:%s:%s" % (pos, "wml" if fam == "wap" else "html"),
                          "payload %r in %s changes the %s page structure at token %d: %r instead of %r" % (
                              p, pos, form, i, sa[i:i + 2], sb[i:i + 2]), {"page": world.u(pa.body[:1200])}))
    return fails
