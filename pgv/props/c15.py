"""C15 - Gopher+ item information is faithful."""
from __future__ import annotations

import re
import time

from hypothesis import strategies as st

from pgv import clients, drive, gen, sites, world
from pgv.core import Fail
from pgv.model import mime

ID = "C15"
LEVEL = "exploration"
RULE = ("A directory (real, or inside a ZIP with the full handler list) of 1-4 items (files with typed extensions, HTML, "
        "sub-directories, an mbox) each with a generated subset of the sidecars .abstract/.keywords/.ask/.3d holding 1-10 "
        "printable lines (lines starting with '+', interior empty lines, optional final newline), optionally with a UMN "
        "override of the same item (.names block or .cap file giving it another name / number). Requests: '$' on the "
        "directory, '!' on every item, '+' on every document. Oracles: k-th +INFO line == k-th plain Gopher menu line; "
        "+ADMIN carries the configured admin and the object's Mod-Date; +VIEWS names the reference MIME type and a size "
        "within 1 KiB; exactly one block per sidecar whose lines (minus the leading blank) are the file's lines; every "
        "other line of the reply starts with a blank; '+N' == number of bytes that follow. Non-trivial: an item "
        "with >= 1 sidecar, or a virtual / ZIP item; distinct = (case hash, item).")
ASSUMPTIONS = [
    "sidecar lines are printable, carry no trailing blanks and the file does not end in empty lines (quantifier)",
    "'!' of an item is compared with its parent listing's line only under extstrip=none and without .cap/.names "
    "(directory-level decorations are the directory handler's business)",
    "for a directory both application/gopher-menu and application/gopher+-menu are accepted as its type",
]

EA = [(".abstract", b"ABSTRACT"), (".keywords", b"KEYWORDS"), (".ask", b"ASK"), (".3d", b"3D")]
line_st = st.one_of(
    st.text("abcdefghijklmnopqrstuvwxyzABCXYZ0123456789 .,:;!?+-*/=<>()[]'\"&%$#@", min_size=1, max_size=40).map(str.rstrip).filter(bool),
    st.sampled_from(["+INFO: 1fake\tfake\tfake\t70", "+ADMIN:", "+", "++VIEWS", " leading blank", "caf\xc3\xa9 \xe2\x82\xac", "Ask: Name?", ".",
                     # text in a legacy 8-bit character set (printable there, not well-formed UTF-8): the bytes are the file's lines
                     "caf\xe9 cr\xe8me", "\xa9 1999 M\xfcller", "20 \xb0C \xbd l", "\xc3 cut", "\xe2\x82"]),
)


@st.composite
def _sidecar(draw):
    if draw(st.integers(0, 7)) == 0:
        # a long sidecar: 9-19 KB, still inside the documented first 20 KB
        n = draw(st.integers(110, 230))
        return {"lines": ["line %04d of a long sidecar file %s" % (i, "x" * 50) for i in range(n)], "final_nl": draw(st.booleans())}
    if draw(st.integers(0, 9)) == 0:
        # an empty sidecar file (zero bytes, or one blank line)
        return {"lines": [], "final_nl": draw(st.booleans())}
    lines = draw(st.lists(st.one_of(line_st, line_st, st.just("")), min_size=1, max_size=10))
    while lines and lines[-1] == "":
        lines.pop()
    if not lines:
        lines = [draw(line_st)]
    return {"lines": lines, "final_nl": draw(st.booleans())}


@st.composite
def _case(draw):
    n = draw(st.integers(1, 4))
    items = []
    used = set()
    for _ in range(n):
        kind = draw(st.sampled_from(["txt", "txt", "bin", "html", "dir", "mbox"]))
        b = draw(st.one_of(gen.tame_base, gen.names(toplevel=True, full=True)))
        # (a file name may end in a full stop: its sidecars are then called 'name..abstract' etc.)
        name = {"txt": b + draw(st.sampled_from([".txt", "", ".c", ".txt", "", ".3d", ".ask", ".keywords", ".abstract", ".", "."])), "bin": b + draw(st.sampled_from([".gif", ".pdf", ".tar.gz"])),
                "html": b + ".html", "dir": b, "mbox": b + ".mbox"}[kind]
        if name in used or not gen.servable_name(name[:-1] if kind == "txt" and name.endswith(".") and len(name) > 1 else name, True, True):
            continue
        # an item must not double as another item's sidecar (nor the other way round)
        if any(name.endswith(e) and name[:-len(e)] in used for e, _ in EA) or any(name + e in used for e, _ in EA):
            continue
        used.add(name)
        side = {}
        if kind != "mbox":
            for ext, _ in EA:
                if draw(st.integers(0, 2)) == 0 and name + ext not in used:
                    side[ext] = draw(_sidecar())
        items.append({"name": name, "kind": kind, "size": draw(st.sampled_from([0, 1, 500, 1023, 1024, 1025, 5000])), "side": side,
                      # a UMN override of the same item (display name / number): the sidecar blocks must survive the merge
                      "override": draw(st.sampled_from([None, None, "names", "cap", "names-numb"])),
                      # one sidecar that is there, looks like a regular file, and cannot be read (I/O error): the item does
                      # without that block - and keeps its others
                      "unreadable": draw(st.sampled_from(sorted(side))) if len(side) >= 2 and draw(st.integers(0, 2)) == 0 else None})
    if not items:
        items.append({"name": "a.txt", "kind": "txt", "size": 10, "side": {".abstract": {"lines": ["x"], "final_nl": True}}})
    return {"items": items, "inzip": draw(st.sampled_from([False, False, True])), "depth": draw(st.sampled_from([0, 1])),
            "extstrip": draw(st.sampled_from(["none", "nonencoded"]))}


def strategy(tier):
    return _case()


def examples(tier):
    return 4000 if tier == "quick" else 80000


def _sc_text(sc):
    return "\n".join(sc["lines"]) + ("\n" if sc["final_nl"] else "")


def _entries(case):
    """-> list of tree-spec entries relative to the directory, and per item content"""
    spec = []
    for it in case["items"]:
        n = it["name"]
        if it["kind"] == "dir":
            spec.append([n, "d", None])
            spec.append([n + "/inner.txt", "f", "x\n"])
            for ext, sc in it["side"].items():
                spec.append([n + "/" + ext, "f", _sc_text(sc)] if it.get("unreadable") != ext else [n + "/" + ext, "l", "/proc/self/mem"])
        else:
            if it["kind"] == "mbox" or it.get("_mbox_as_file"):
                # messages whose flattened forms differ: a header line longer than 78 columns, an 8-bit body with a
                # declared charset, a raw 8-bit header value
                content = sites.mbox_text(["subject one", "subject two"]) + (
                    sites.FROM_LINE + "From: alice@example.com\nSubject: " + "a very long subject line " * 6 + "end\n\nbody three\n\n" +
                    sites.FROM_LINE + "From: alice@example.com\nSubject: four\nMIME-Version: 1.0\nContent-Type: text/plain; charset=iso-8859-1\n"
                    "Content-Transfer-Encoding: 8bit\n\ncaf\xe9 cr\xe8me\n\n" +
                    sites.FROM_LINE + "From: Ren\xe9 <rene@example.com>\nSubject: five \xe9\n\nbody five\n\n")
            elif it["kind"] == "html":
                content = "<html><head><title>Title %d</title></head></html>\n" % it["size"]
            else:
                content = ("x" * it["size"])
            spec.append([n, "f", content])
            it["_len"] = len(content)
            for ext, sc in it["side"].items():
                spec.append([n + ext, "f", _sc_text(sc)] if it.get("unreadable") != ext else [n + ext, "l", "/proc/self/mem"])
    blocks = []
    for i, it in enumerate(case["items"]):
        ov = it.get("override")
        if ov == "cap":
            spec.append([".cap/" + it["name"], "f", "Name=Capped %d\n" % i])
        elif ov:
            blocks.append("Path=./%s\nName=Renamed %d\n%s" % (it["name"], i, "Numb=%d\n" % (i + 1) if ov == "names-numb" else ""))
    if blocks:
        spec.append([".names", "f", "\n".join(blocks)])
    return spec


def _blocks(body):
    return clients.parse_gplus_dir(body)


def _check_item_blocks(it, item, cfg, inzip, where, admin):
    """item: parsed {'entry','infoline','blocks'}; returns list of Fail"""
    fails = []
    names = [b[0] for b in item["blocks"] if it is None or b[0] != it.get("_unread_blk")]
    want = [b"INFO", b"ADMIN", b"VIEWS"] + [blk for ext, blk in EA if it is not None and ext in it["side"]]
    if it is not None and it["kind"] == "mbox":
        pass
    if sorted(names) != sorted(want):
        extra = [n for n in names if names.count(n) > want.count(n)]
        missing = [n for n in want if want.count(n) > names.count(n)]
        fails.append(Fail("blocks:%s" % ("extra-" + extra[0].decode("latin-1") if extra else "missing-" + missing[0].decode("latin-1")),
                          "%s: blocks %r, expected %r" % (where, names, want)))
        return fails
    for name, rest, lines in item["blocks"]:
        for l in lines:
            if not l.startswith(b" "):
                fails.append(Fail("content-line-unprefixed", "%s: line %r inside +%s does not start with a blank" % (where, l, name.decode())))
        if name == b"ADMIN":
            if not lines or lines[0] != b" Admin: " + admin.encode():
                fails.append(Fail("admin-line", "%s: +ADMIN first line %r" % (where, lines[:1])))
            md = [l for l in lines if l.startswith(b" Mod-Date: ")]
            if it is not None and it["kind"] != "mbox":
                if it["kind"] == "dir" and inzip:
                    wantmd = None
                else:
                    t = time.mktime((2001, 9, 9, 1, 46, 40, 0, 0, -1)) if inzip else world.MTIME
                    wantmd = time.strftime("%Y%m%d%H%M%S", time.localtime(t)).encode()
                if wantmd is None:
                    pass
                elif len(md) != 1 or not md[0].endswith(b"<" + wantmd + b">"):
                    fails.append(Fail("admin-moddate", "%s: Mod-Date %r, object's mtime is <%s>" % (where, md, wantmd.decode())))
        elif name == b"VIEWS" and it is not None:
            if len(lines) != 1:
                fails.append(Fail("views-lines", "%s: +VIEWS has %d lines" % (where, len(lines))))
                continue
            m = re.match(rb"^ ([^ :]+)(?: [^:]*)?:(?: <(\d+)k>)?$", lines[0])
            if not m:
                fails.append(Fail("views-malformed", "%s: +VIEWS line %r" % (where, lines[0])))
                continue
            typ = m.group(1).decode()
            if it["kind"] == "dir" or it["kind"] == "mbox":
                ok = typ in ("application/gopher-menu", "application/gopher+-menu")
                # the Gopher+ menu type is for items whose own +INFO line says they speak Gopher+ (trailing '+' field)
                info = item.get("infoline") or b""
                if typ == "application/gopher+-menu" and not info.rstrip(b"\r\n").endswith(b"\t+"):
                    fails.append(Fail("views-type:gopher+-menu-without-flag",
                                      "%s: +VIEWS names application/gopher+-menu for %r, whose +INFO line %r carries no Gopher+ flag" % (
                                          where, it["name"], info)))
            else:
                ok = typ == mime.served_type(cfg, it["name"])
            if not ok:
                fails.append(Fail("views-type", "%s: +VIEWS type %r for %r" % (where, typ, it["name"])))
            if it["kind"] in ("txt", "bin", "html"):
                if m.group(2) is None:
                    fails.append(Fail("views-nosize", "%s: +VIEWS gives no size for a file" % where))
                elif abs(int(m.group(2)) * 1024 - it["_len"]) >= 1024:
                    fails.append(Fail("views-size", "%s: +VIEWS <%sk> for %d bytes" % (where, m.group(2).decode(), it["_len"])))
        elif name in (b"ABSTRACT", b"KEYWORDS", b"ASK", b"3D") and it is not None and name != it.get("_unread_blk"):
            ext = [e for e, b_ in EA if b_ == name][0]
            wl = [world.b(l) for l in it["side"][ext]["lines"]]
            got = [l[1:] for l in lines]
            if got != wl:
                i = next((k for k, (a, b_) in enumerate(zip(got, wl)) if a != b_), min(len(got), len(wl)))
                fails.append(Fail("sidecar-lines:%s" % name.decode(), "%s: +%s line %d is %r, file has %r (%d vs %d lines)" % (
                    where, name.decode(), i, got[i:i + 1], wl[i:i + 1], len(got), len(wl))))
    return fails


def _after_expiry(case, root, dsel, pre, ctx):
    """With the directory cache on: the listing is cached, a sidecar is rewritten in place (the directory's own mtime does not
    move), the lifetime passes on the server's clock: the '$' listing must carry the new sidecar text."""
    import os
    import pygopherd.handlers.dir as hdir
    target = next((it for it in case["items"] if it["side"] and it["kind"] != "dir" and not it.get("override")), None)
    if target is None:
        return []
    ext = sorted(target["side"])[0]
    block = dict(EA)[ext]
    ddir = os.path.join(os.fsencode(root), world.b(pre + "d"))
    path = os.path.join(ddir, world.b(target["name"] + ext))
    cfg = drive.make_config(root, "shipped", abstract_entries="never", abstract_headers="off",
                            **{"handlers.dir.DirHandler::cachetime": "100", "handlers.UMN.UMNDirHandler::extstrip": case["extstrip"]})
    real = hdir.time
    offset = [0]

    class _Clock:
        def time(self):
            return real.time() + offset[0]

        def __getattr__(self, n):
            return getattr(real, n)
    hdir.time = _Clock()
    try:
        world.remove_caches(root)
        os.utime(ddir, (world.MTIME, world.MTIME))  # the directory itself was last changed long ago
        drive.serve(cfg, clients.encode("gdollar", world.b(dsel)))  # written into the cache
        os.utime(ddir, (world.MTIME, world.MTIME))
        with open(path, "wb") as f:  # rewritten in place
            f.write(b"rewritten after the listing was cached\n")
        os.utime(ddir, (world.MTIME, world.MTIME))
        offset[0] = 1000
        rd = drive.serve(cfg, clients.encode("gdollar", world.b(dsel)))
        ctx.label("after-expiry")
        pd = clients.parse_response("gdollar", rd.response)
        if not pd.ok:
            return [Fail("dollar-failed:after-expiry", "$ listing of %r after the lifetime failed: %r" % (dsel, rd.response[:100]))]
        for item in _blocks(pd.body):
            e = item.get("entry")
            if e and e["target"] and e["target"][0] == "local" and e["target"][1] == world.b(dsel + "/" + target["name"]):
                got = [l for b in item["blocks"] if b[0] == block for l in b[2]]
                if got != [b" rewritten after the listing was cached"]:
                    return [Fail("stale-block-after-expiry:%s" % block.decode(),
                                 "$ %s item %s: the %s sidecar was rewritten in place and the cache lifetime has passed, yet +%s reads %r" % (
                                     dsel, target["name"], ext, block.decode(), got[:2]))]
        return []
    finally:
        hdir.time = real
        world.remove_caches(root)


def check_case(case, ctx):
    inzip = case["inzip"]
    if inzip:
        # full handler list: *.gz would be decompressed (C04's subject); a mailbox inside an archive is a plain file
        for it in case["items"]:
            if it["name"].endswith(".tar.gz"):
                it["name"] = it["name"][:-7] + ".pdf"
            if it["kind"] == "mbox":
                it["kind"] = "txt"
                it["_mbox_as_file"] = True
        names = [it["name"] for it in case["items"]]
        case["items"] = [it for i, it in enumerate(case["items"]) if it["name"] not in names[:i]]
    for it in case["items"]:
        if inzip or it.get("unreadable") not in it["side"]:
            it["unreadable"] = None
    rel = _entries(case)
    for it in case["items"]:
        if it["unreadable"]:
            it["side"].pop(it["unreadable"])
            it["_unread_blk"] = dict(EA)[it["unreadable"]]
            ctx.label("unreadable-sidecar")
    pre = "top/" if case["depth"] else ""
    if inzip:
        members = []
        for e in rel:
            members.append(["d/" + e[0], "d" if e[1] == "d" else "f", e[2] or "", {}])
        spec = [[pre + "arch.zip", "zip", {"members": members}]]
        if case["depth"]:
            spec.insert(0, ["top", "d", None])
        dsel = "/" + pre + "arch.zip/d"
    else:
        spec = [[pre + "d/" + e[0], e[1], e[2]] for e in rel]
        dsel = "/" + pre + "d"
    base, root = world.build(spec)
    try:
        cfg = drive.make_config(root, "full" if inzip else "shipped", abstract_entries="never", abstract_headers="off",
                                **{"handlers.dir.DirHandler::cachetime": "0",
                                   "handlers.UMN.UMNDirHandler::extstrip": case["extstrip"]})
        admin = cfg.get("protocols.gopherp.GopherPlusProtocol", "admin")
        by_sel = {world.b(dsel + "/" + it["name"]): it for it in case["items"]}
        fails = []
        rp = drive.serve(cfg, clients.encode("gopher", world.b(dsel)))
        rd = drive.serve(cfg, clients.encode("gdollar", world.b(dsel)))
        pd = clients.parse_response("gdollar", rd.response)
        ctx.label("inzip" if inzip else "real", "extstrip:" + case["extstrip"])
        # (a sidecar called 'name..keywords' is itself an entry the walk cannot serve: it is skipped and logged as FileNotFound)
        if rd.escaped is not None or not pd.ok or [c for c in rd.exception_classes() if c != "FileNotFound"]:
            return [Fail("dollar-failed", "$ listing of %r failed: %r %r" % (dsel, rd.response[:100], rd.logs[-1:]))]
        plain = [l for l in rp.response.split(b"\r\n") if l]
        items = _blocks(pd.body)
        infos = [it_["infoline"] for it_ in items if "infoline" in it_]
        if infos != plain:
            i = next((k for k, (a, b_) in enumerate(zip(infos, plain)) if a != b_), min(len(infos), len(plain)))
            fails.append(Fail("info-vs-menu:dollar", "$ listing of %r: +INFO #%d %r differs from plain menu line %r (%d vs %d)" % (
                dsel, i, infos[i:i + 1], plain[i:i + 1], len(infos), len(plain))))
        for item in items:
            e = item.get("entry")
            it = by_sel.get(e["target"][1]) if e and e["target"] and e["target"][0] == "local" else None
            if it is None:
                continue  # sidecars the ignore pattern lets through (.keywords) and similar: blocks not modelled
            if it["side"] or inzip or it["kind"] == "mbox":
                ctx.nontriv((ctx._hash(), it["name"]))
            if it["side"] and it.get("override"):
                ctx.label("sidecar+override:" + it["override"])
            fails += _check_item_blocks(it, item, cfg, inzip, "$ %s item %s" % (dsel, it["name"]), admin)
        # '!' on every item and '+' on every document
        for selb, it in by_sel.items():
            rb = drive.serve(cfg, clients.encode("gbang", selb))
            pb = clients.parse_response("gbang", rb.response)
            if rb.escaped is not None or not pb.ok or rb.exception_classes():
                fails.append(Fail("bang-failed:%s" % it["kind"], "! on %r failed: %r %r" % (selb, rb.response[:80], rb.logs[-1:])))
                continue
            its = _blocks(pb.body)
            if len(its) != 1:
                fails.append(Fail("bang-items", "! on %r returned %d items" % (selb, len(its))))
                continue
            fails += _check_item_blocks(it, its[0], cfg, inzip, "! %s" % world.u(selb), admin)
            if case["extstrip"] == "none" and not any(i_.get("override") for i_ in case["items"]):
                mine = [l for l in plain if l.split(b"\t")[1:2] == [selb]]
                if mine and its[0].get("infoline") != mine[0]:
                    fails.append(Fail("info-vs-menu:bang", "! on %r: +INFO %r differs from the parent menu line %r" % (selb, its[0].get("infoline"), mine[0])))
            if it["kind"] == "mbox" and not it.get("_mbox_as_file"):
                # the messages of the mailbox (virtual items): an announced length is the number of bytes that follow
                for n_ in range(1, 6):
                    msel = selb + b"|/MBOX-MESSAGE/%d" % n_
                    rq = drive.serve(cfg, clients.encode("gplus", msel))
                    pq = clients.parse_response("gplus", rq.response)
                    ctx.count("message_plus_requests")
                    if not pq.ok:
                        fails.append(Fail("plus-failed:message", "+ on %r failed: %r" % (msel, rq.response[:80])))
                    elif pq.length is not None and pq.length != len(pq.body):
                        fails.append(Fail("plus-length:message", "+ on %r announced %d, sent %d bytes" % (msel, pq.length, len(pq.body))))
            if it["kind"] in ("txt", "bin", "html"):
                rq = drive.serve(cfg, clients.encode("gplus", selb))
                pq = clients.parse_response("gplus", rq.response)
                if not pq.ok:
                    fails.append(Fail("plus-failed", "+ on %r failed: %r" % (selb, rq.response[:80])))
                elif pq.length is None:
                    fails.append(Fail("plus-nolength", "+ on plain file %r answered %s" % (selb, pq.status)))
                elif pq.length != len(pq.body):
                    fails.append(Fail("plus-length", "+ on %r announced %d, sent %d bytes" % (selb, pq.length, len(pq.body))))
        if not inzip and not fails:
            # the same items announced by a menu somebody wrote (a gophermap in another directory): there too an item's +INFO
            # line in the '$' listing is its line in the plain listing
            import os
            lines = []
            for k_, l in enumerate(plain):
                f_ = l.split(b"\t")
                if len(f_) >= 2 and f_[1] in by_sel and not re.search(rb"[\t\r\n]", f_[1]):
                    lines.append(l[:1] + b"Announced %d\t" % k_ + f_[1] + b"\n")
            if lines:
                os.mkdir(os.path.join(root, "zzgm"))
                with open(os.path.join(root, "zzgm", "gophermap"), "wb") as fp:
                    fp.write(b"iA menu written by hand\n" + b"".join(lines))
                rgp = drive.serve(cfg, clients.encode("gopher", b"/zzgm"))
                rgd = drive.serve(cfg, clients.encode("gdollar", b"/zzgm"))
                pgd = clients.parse_response("gdollar", rgd.response)
                ctx.label("gophermap-menu")
                if rgd.escaped is not None or not pgd.ok:
                    fails.append(Fail("dollar-failed:gophermap", "$ listing of the gophermap menu failed: %r %r" % (rgd.response[:100], rgd.logs[-1:])))
                else:
                    gplain = [l for l in rgp.response.split(b"\r\n") if l]
                    ginfos = [it_["infoline"] for it_ in _blocks(pgd.body) if "infoline" in it_]
                    if ginfos != gplain:
                        i = next((k for k, (a, b_) in enumerate(zip(ginfos, gplain)) if a != b_), min(len(ginfos), len(gplain)))
                        fails.append(Fail("info-vs-menu:dollar:gophermap", "$ listing of a gophermap menu: +INFO #%d %r differs from plain menu line %r (%d vs %d)" % (
                            i, ginfos[i:i + 1], gplain[i:i + 1], len(ginfos), len(gplain))))
        if not inzip and not fails:
            fails += _after_expiry(case, root, dsel, pre, ctx)
        ctx.sample({"dir": dsel, "items": [{k: v for k, v in it.items() if k != "_len"} for it in case["items"]]}, cls=str(inzip))
        seen, out = set(), []
        for f in fails:
            if f.sig not in seen:
                seen.add(f.sig)
                out.append(f)
        return out
    finally:
        world.rmtree(base)
