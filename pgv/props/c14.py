"""C14 - Concurrent clients are isolated from one another (stress + harness-owned schedule points)."""
from __future__ import annotations

import os
import re
import socket
import threading
import time

from hypothesis import strategies as st

from pgv import clients, drive, live, sites, world
from pgv.core import Fail

ID = "C14"
LEVEL = "exploration"
MAX_WORKERS = 8
CASE_TIMEOUT_S = 180
TIME_BUDGET_S = {"quick": 240, "thorough": 3000}
RULE = ("Mode 'burst': a live server subprocess (ThreadingTCPServer or ForkingTCPServer, real TLS, switch interval 1e-5, "
        "fresh per case: lazy tables empty, no cache files) receives N in [2,32] mixed-protocol requests (plaintext and "
        "TLS, concentrated on a few directories so that cache writers and readers collide) on sockets that are all "
        "connected first and released together by a barrier; every reply must equal the reply the same request gets "
        "alone from a second pristine server on a pristine copy of the tree; afterwards the server must answer a "
        "probe, have no zombie children and be back to its baseline thread count. Two enumerated 'crowd' bursts (one per "
        "server type) release 37 different requests at once on a fixed site: six 0.9 MB documents and three ZIP members with "
        "distinct contents through several protocols, and four scripts that print the request they were started for. "
        "Mode 'gated' (harness-owned "
        "schedule): in-process, a cache writer is stopped right after it has truncated the cache file / after each "
        "write, a reader request for the same directory runs at that instant and must get its solo reply. Mode "
        "'lazyinit' (harness-owned schedule): the first request after start-up is suspended inside the configuration "
        "lookup feeding a lazily initialised shared table (handler list, type mapping, sidecar table, root path, "
        "extension stripping, ...) and a second complete request runs at that instant; both must get their solo replies. "
        "Mode 'seam': requests are sent both through the in-process driver and over real sockets; the replies must be "
        "identical (validates the seam all other checks rely on, incl. real TLS). Non-trivial burst: >= 2 requests "
        "that overlapped in time on the same directory; distinct by case hash.")
ASSUMPTIONS = [
    "interleavings are sampled (stress) and forced only at the cache writer's window; a race that needs a specific "
    "interleaving elsewhere can be missed - no schedule coverage is claimed beyond the measured overlap",
    "directory timestamps are masked (cache files change them)",
    "reaping and thread exit are given up to 5 s after the burst",
]

FORMS = ["gopher", "gophers", "gplus", "gpluss", "gdollar", "http", "https", "wap", "gemini", "spartan"]
_MASKS = [(re.compile(rb"Last-Modified: [^\r\n]*\r\n"), b"Last-Modified: X\r\n"),
          (re.compile(rb" Mod-Date: [^\r\n]*\r\n"), b" Mod-Date: X\r\n")]


def _mask(b):
    for rx, rep in _MASKS:
        b = rx.sub(rep, b)
    return b


@st.composite
def _case(draw):
    mode = draw(st.sampled_from(["burst", "burst", "burst", "gated", "gated", "seam", "lazyinit", "lazyinit", "lazyinit"]))
    site = draw(sites.site(full=True, depth=2, max_items=4))
    if mode == "burst":
        n = draw(st.integers(2, 32))
        focus = draw(st.lists(st.integers(0, 30), min_size=1, max_size=3))
        reqs = []
        for _ in range(n):
            t = draw(st.sampled_from(focus)) if draw(st.integers(0, 9)) < 8 else draw(st.integers(0, 30))
            reqs.append([t, draw(st.sampled_from(FORMS))])
        return {"mode": "burst", "servertype": draw(st.sampled_from(["ThreadingTCPServer", "ForkingTCPServer"])), "site": site, "reqs": reqs}
    if mode == "lazyinit":
        # both requests are mostly listings (even target numbers): they touch every lazily initialised table
        return {"mode": "lazyinit", "site": site, "gate": draw(st.sampled_from(LAZY_KEYS[:5] * 3 + LAZY_KEYS[5:])),
                "outer": [draw(st.sampled_from([0, 0, 2, 4, 1, 3])), draw(st.sampled_from(FORMS))],
                "inner": [draw(st.sampled_from([0, 0, 2, 4, 1, 3])), draw(st.sampled_from(FORMS))]}
    if mode == "gated":
        return {"mode": "gated", "site": site, "target": draw(st.integers(0, 30)), "writer": draw(st.sampled_from(FORMS)),
                "stale": draw(st.booleans()),
                "reader": draw(st.sampled_from(FORMS))}
    return {"mode": "seam", "site": site, "servertype": draw(st.sampled_from(["ThreadingTCPServer", "ForkingTCPServer"])),
            "reqs": [[draw(st.integers(0, 30)), draw(st.sampled_from(FORMS + ["head", "gbang", "waphdr"]))] for _ in range(draw(st.integers(3, 10)))]}


def strategy(tier):
    return _case()


def examples(tier):
    return 128 if tier == "quick" else 3000


LAZY_KEYS = [["GopherEntry", "mapping"], ["GopherEntry", "eaexts"], ["handlers.HandlerMultiplexer", "handlers"],
             ["pygopherd", "root"], ["handlers.UMN.UMNDirHandler", "extstrip"], ["protocols.ProtocolMultiplexer", "protocols"],
             ["handlers.dir.DirHandler", "cachefile"], ["GopherEntry", "defaultmimetype"]]


_GATE = {"fired": True, "inner": None, "gate": None, "ireq": None, "itls": False}


import configparser as _configparser  # noqa: E402


class GateConfig(_configparser.ConfigParser):
    """module-level (the directory cache pickles entries together with their config object)"""

    def get(self, section, option, **kw):
        st_ = _GATE
        if not st_["fired"] and (section, option) == st_["gate"]:
            st_["fired"] = True
            r = drive.serve(self, st_["ireq"], tls=st_["itls"], realfd=True, reset=False)
            st_["inner"] = _mask(r.response)
        return super().get(section, option, **kw)


def _check_lazyinit(case, ctx):
    """every case visits all lazily initialised tables in turn (the generated gate first)"""
    fails = []
    gates = [case["gate"]] + [g for g in LAZY_KEYS[:5] if g != case["gate"]]
    for g in gates:
        fails += _check_lazyinit_one(dict(case, gate=g), ctx)
        if fails:
            break
    return fails


def _check_lazyinit_one(case, ctx):
    """harness-owned schedule point: the first request after start-up is suspended inside the configuration lookup that
    feeds a lazily initialised shared table; a second complete request runs at that instant (what another thread of the
    threading server would do); both must get their solo replies."""
    import configparser
    objs, dirs = _targets(case["site"])
    spec = sites.to_spec(case["site"])
    base, root = world.build(spec)
    try:
        oo, of = _pick(objs, dirs, case["outer"][0]), case["outer"][1]
        io_, if_ = _pick(objs, dirs, case["inner"][0]), case["inner"][1]
        oreq, otls = _request(oo, of)
        ireq, itls = _request(io_, if_)
        over = {"handlers.dir.DirHandler::cachetime": "0"}
        plain = drive.make_config(root, "full", **over)
        want_o = _mask(drive.serve(plain, oreq, tls=otls, realfd=True).response)
        want_i = _mask(drive.serve(plain, ireq, tls=itls, realfd=True).response)
        world.remove_caches(root)
        gate = tuple(case["gate"])
        state = _GATE
        state.update(fired=False, inner=None, gate=gate, ireq=ireq, itls=itls)
        cfg = drive.make_config(root, "full", cls=GateConfig, **over)
        drive.reset_globals()
        try:
            ro = drive.serve(cfg, oreq, tls=otls, realfd=True, reset=False)
        finally:
            fired = state["fired"]
            state["fired"] = True  # disarm
        got_o = _mask(ro.response)
        ctx.label("lazyinit", "lazyinit-gate:%s" % gate[1], "lazyinit-fired:%s" % fired)
        if fired:
            ctx.nontriv()
        ctx.sample({"gate": list(gate), "outer": [oo["sel"], of], "inner": [io_["sel"], if_], "fired": fired}, cls="lazy" + gate[1])
        fails = []
        if fired and state["inner"] != want_i:
            fails.append(Fail("lazyinit-inner-differs:%s" % gate[1],
                              "a %s request for %r served while the first request after start-up sits in the lazy initialisation fed by "
                              "[%s] %s gets a different reply than alone" % (if_, io_["sel"], gate[0], gate[1]),
                              {"concurrent": world.u((state["inner"] or b"")[:400]), "alone": world.u(want_i[:400])}))
        if got_o != want_o:
            fails.append(Fail("lazyinit-outer-differs:%s" % gate[1],
                              "the first request (%s %r) gets a different reply when another request runs inside its lazy initialisation of [%s] %s" % (
                                  of, oo["sel"], gate[0], gate[1]),
                              {"concurrent": world.u(got_o[:400]), "alone": world.u(want_o[:400]), "logs": ro.logs[-3:],
                               "escaped": repr(ro.escaped), "handled": ro.handled_signatures()}))
        return fails
    finally:
        world.rmtree(base)


def _targets(site):
    objs = sites.objects(site)
    dirs = [o for o in objs if o["kind"] == "menu"]
    return objs, dirs


def _pick(objs, dirs, t):
    # even indices aim at directories (cache collisions), odd ones at any object
    if t % 2 == 0 or not objs:
        cand = [{"sel": "/", "kind": "menu"}] + dirs
        return cand[(t // 2) % len(cand)]
    return objs[(t // 2) % len(objs)]


def _request(o, form):
    tls, fam = clients.FORMS[form]
    selb = world.b(o["sel"])
    if fam in ("gopher", "gplus", "gdollar", "gbang") and re.search(rb"[\t\r\n]", selb):
        selb = re.sub(rb"[\t\r\n]", b"_", selb)
    return clients.encode(form, selb), tls


_CROWD_SCRIPT = "#!/bin/sh\necho \"script search=[$SEARCHREQUEST] selector=[$SELECTOR] request=[$REQUEST]\"\n"


def _crowd():
    """a fixed site for the enumerated 'crowd' bursts: large documents with distinct contents (a transfer takes many
    read/send rounds) and scripts whose output names the request they were started for"""
    spec = [["big%d.txt" % i, "f", "".join("document %d line %06d\n" % (i, n) for n in range(40000))] for i in range(6)]
    spec += [["s%d.sh" % i, "f", _CROWD_SCRIPT, 0o755] for i in range(4)]
    spec.append(["arc.zip", "zip", {"members": [["m%d.txt" % i, "f", "".join("member %d line %06d\n" % (i, n) for n in range(20000))]
                                                 for i in range(3)]}])
    # documents produced by Python code the server loads per request (.pyg), each saying which one it is
    pyg = ("from pygopherd.handlers.pyg import PYGBase\nfrom pygopherd.gopherentry import GopherEntry\n\n\nclass PYGMain(PYGBase):\n"
           "    def canhandlerequest(self):\n        return True\n\n    def isdir(self):\n        return False\n\n"
           "    def getentry(self):\n        entry = GopherEntry(self.selector, self.config)\n        entry.type = '0'\n"
           "        entry.mimetype = 'text/plain'\n        entry.name = 'pyg %d'\n        return entry\n\n"
           "    def write(self, wfile):\n        wfile.write(('this is pyg document %d\\n' * 50).encode())\n")
    spec += [["p%d.pyg" % i, "f", pyg % (i, i), 0o755] for i in range(6)]
    plan = []
    for i in range(6):
        for form in (["gopher", "https", "gplus"] if i % 2 else ["gophers", "http", "spartan"]):
            plan.append(({"sel": "/big%d.txt" % i, "kind": "doc"}, form))
    for i in range(3):
        plan.append(({"sel": "/arc.zip/m%d.txt" % i, "kind": "doc"}, ["gopher", "http", "gemini"][i]))
    for i in range(6):
        plan.append(({"sel": "/p%d.pyg" % i, "kind": "doc"}, ["gopher", "http", "gplus", "gophers", "gemini", "spartan"][i]))
    raw = []
    for i in range(4):
        # (the whole crowd stays below 40 connections: the forking server serves at most 40 at a time, and the harness
        # connects every socket before it releases any request)
        raw += [(b"/s%d.sh\tquery%d\r\n" % (i, i), False, "gopher"), (b"/s%d.sh?a%d b\r\n" % (i, i), True, "gophers"),
                (b"GET /s%d.sh?q=%d HTTP/1.0\r\n\r\n" % (i, i), False, "http")][:2 + (i % 2)]
    return spec, plan, raw


def _mail_crowd():
    """a fixed site for the second enumerated crowd: one large mail folder (30 messages of 400 lines, each naming itself), whose
    messages and listing are asked for by 36 clients at once - every reply is cut out of the same file"""
    text = ""
    for i in range(1, 31):
        text += sites.FROM_LINE + "From: alice@example.com\nSubject: message number %d\n\n" % i + \
            "".join("message %d line %04d\n" % (i, n) for n in range(400)) + "\n"
    spec = [["big.mbox", "f", text]]
    spec += sites.maildir_spec("md", ["maildir message %d" % i for i in range(1, 7)])
    plan = []
    forms = ["gopher", "http", "gplus", "gophers", "gemini", "spartan", "https"]
    for i in range(1, 29):
        plan.append(({"sel": "/big.mbox|/MBOX-MESSAGE/%d" % i, "kind": "doc"}, forms[i % len(forms)]))
    for form in ("gopher", "http", "gdollar"):
        plan.append(({"sel": "/big.mbox", "kind": "menu"}, form))
    for i in range(1, 6):
        plan.append(({"sel": "/md|/MAILDIR-MESSAGE/%d" % i, "kind": "doc"}, forms[i]))
    return spec, plan, []


def _check_burst(case, ctx):
    crowd_raw = []
    if case.get("crowd") == "mail":
        spec, plan0, crowd_raw = _mail_crowd()
    elif case.get("crowd"):
        spec, plan0, crowd_raw = _crowd()
    else:
        objs, dirs = _targets(case["site"])
        spec = sites.to_spec(case["site"])
    base = world.fresh_dir("c14")
    ra, rb = os.path.join(base, "A"), os.path.join(base, "B")
    os.mkdir(ra)
    os.mkdir(rb)
    world.materialise(spec, ra)
    world.materialise(spec, rb)
    sa = sb = None
    fails = []
    try:
        sa = live.Server(live.write_conf(os.path.join(base, "a.conf"), ra, "full", case["servertype"]))
        sb = live.Server(live.write_conf(os.path.join(base, "b.conf"), rb, "full", "ThreadingTCPServer"))
        base_threads = sa.threads()
        if case.get("crowd"):
            plan = list(plan0)
            reqs = [_request(o, form) for o, form in plan]
            for rq, tls, form in crowd_raw:
                plan.append(({"sel": world.u(rq.split(b"\r")[0]), "kind": "doc"}, form))
                reqs.append((rq, tls))
            ctx.nontriv(("crowd", case["crowd"], case["servertype"]))
        else:
            plan = [(_pick(objs, dirs, t), form) for t, form in case["reqs"]]
            reqs = [_request(o, form) for o, form in plan]
        replies, times = live.burst(sa.port, reqs)
        # solo references, one at a time on the pristine twin
        solo = {}
        for r in reqs:
            if r not in solo:
                world.remove_caches(rb)
                try:
                    solo[r] = live.request(sb.port, r[0], r[1])
                except Exception as e:
                    solo[r] = e
        # overlap measurement
        overl = 0
        for i in range(len(reqs)):
            for j in range(i + 1, len(reqs)):
                di, dj = plan[i][0]["sel"], plan[j][0]["sel"]
                if di == dj and plan[i][0]["kind"] == "menu" and times[i] and times[j] and \
                        times[i][0] < times[j][1] and times[j][0] < times[i][1]:
                    overl += 1
        if overl:
            ctx.nontriv()
        ctx.label("burst:" + case["servertype"], "batch:%s" % ("2-8" if len(reqs) <= 8 else "9-32"),
                  "overlapping-same-dir-pairs:%s" % ("0" if not overl else "1-5" if overl <= 5 else "6+"))
        ctx.count("burst_requests", len(reqs))
        ctx.count("overlapping_pairs", overl)
        ctx.sample({"servertype": case["servertype"], "requests": [[o["sel"], f] for o, f in plan][:12], "overlapping_pairs": overl},
                   cls="burst" + case["servertype"])
        for i, r in enumerate(reqs):
            got, want = replies[i], solo[r]
            fam = clients.FORMS[plan[i][1]][1]
            if isinstance(want, Exception):
                continue
            if isinstance(got, Exception) or got is None:
                fails.append(Fail("connection-failed:%s" % case["servertype"],
                                  "under a burst of %d the %s request for %r failed: %r (alone it is answered)" % (len(reqs), plan[i][1], plan[i][0]["sel"], got)))
            elif _mask(got) != _mask(want):
                fails.append(Fail("reply-differs:%s:%s" % (case["servertype"], fam),
                                  "under a burst of %d the %s reply for %r differs from the reply the same request gets alone" % (
                                      len(reqs), plan[i][1], plan[i][0]["sel"]),
                                  {"concurrent": world.u(_mask(got)[:500]), "alone": world.u(_mask(want)[:500])}))
        # liveness and reaping
        try:
            probe = live.request(sa.port, b"/\r\n")
            if not probe and not isinstance(solo.get((b"/\r\n", False)), bytes):
                pass
        except Exception as e:
            fails.append(Fail("server-unresponsive:%s" % case["servertype"], "after the burst the server no longer answers: %r" % (e,)))
        if not sa.alive():
            fails.append(Fail("server-died:%s" % case["servertype"], "the server process exited during the burst"))
        else:
            deadline = time.time() + 5
            while time.time() < deadline:
                livec, zomb = sa.children()
                th = sa.threads()
                if zomb == 0 and livec == 0 and (th is None or base_threads is None or th <= base_threads):
                    break
                time.sleep(0.2)  # (no probes here: each probe would itself leave a child to be reaped)
            livec, zomb = sa.children()
            th = sa.threads()
            if zomb or livec:
                fails.append(Fail("children-not-reaped:%s" % case["servertype"], "5 s after the burst: %d live and %d zombie children" % (livec, zomb)))
            if th is not None and base_threads is not None and th > base_threads:
                fails.append(Fail("threads-leaked:%s" % case["servertype"], "5 s after the burst: %d threads, baseline %d" % (th, base_threads)))
        return _dedup(fails)
    finally:
        for s in (sa, sb):
            if s is not None:
                s.stop()
        world.rmtree(base)


def _dedup(fails):
    seen, out = set(), []
    for f in fails:
        if f.sig not in seen:
            seen.add(f.sig)
            out.append(f)
    return out


def _check_gated(case, ctx):
    """in-process: a reader runs while the cache writer sits between truncation and completion"""
    import pygopherd.handlers.base as hbase
    objs, dirs = _targets(case["site"])
    cand = [{"sel": "/", "kind": "menu"}] + [d for d in dirs if d.get("what") in ("dir", None)]
    o = cand[case["target"] % len(cand)]
    spec = sites.to_spec(case["site"])
    base, root = world.build(spec)
    try:
        cfg = drive.make_config(root, "full", **{"handlers.dir.DirHandler::cachetime": "180"})
        cfg0 = drive.make_config(root, "full", **{"handlers.dir.DirHandler::cachetime": "0",
                                                  "handlers.dir.DirHandler::cachefile": ".cache.pygopherd.ref"})
        wreq, wtls = _request(o, case["writer"])
        rreq, rtls = _request(o, case["reader"])
        want_r = _mask(drive.serve(cfg0, rreq, tls=rtls, realfd=True).response)
        want_w = _mask(drive.serve(cfg0, wreq, tls=wtls, realfd=True).response)
        if case.get("stale"):
            # an EXPIRED cache entry exists and the directory has changed since: the writer will regenerate; a reader that
            # arrives while the writer is walking the directory must not be given the expired entry
            drive.serve(cfg, wreq, tls=wtls, realfd=True)
            ddir = os.path.join(os.fsencode(root), world.b(o["sel"]).lstrip(b"/"))
            with open(os.path.join(ddir, b"zz-added-later.txt"), "wb") as f:
                f.write(b"added after the listing was cached\n")
            for dp, dn, fn in os.walk(os.fsencode(root)):
                for n in fn:
                    if n.startswith(b".cache.pygopherd.dir"):
                        st_ = os.stat(os.path.join(dp, n))
                        os.utime(os.path.join(dp, n), (st_.st_atime - 1000, st_.st_mtime - 1000))
            want_r = _mask(drive.serve(cfg0, rreq, tls=rtls, realfd=True).response)
            want_w = _mask(drive.serve(cfg0, wreq, tls=wtls, realfd=True).response)
        orig_open = hbase.VFS_Real.open
        orig_listdir = hbase.VFS_Real.listdir
        reader_replies = []
        in_gate = threading.local()

        def run_reader():
            if getattr(in_gate, "busy", False):
                return
            in_gate.busy = True
            try:
                snap = drive.snapshot_globals()
                r = drive.serve(cfg, rreq, tls=rtls, realfd=True, reset=False)
                drive.restore_globals(snap)
                reader_replies.append(_mask(r.response))
            finally:
                in_gate.busy = False

        class Gate:
            def __init__(self, fp):
                self.fp = fp

            def write(self, b):
                n = self.fp.write(b)
                self.fp.flush()
                run_reader()
                return n

            def __enter__(self):
                return self

            def __exit__(self, *a):
                self.fp.close()

            def __getattr__(self, n):
                return getattr(self.fp, n)

        def gated(self, selector, mode, errors=None):
            fp = orig_open(self, selector, mode, errors=errors)
            if "w" in mode and selector.endswith(".cache.pygopherd.dir") and not getattr(in_gate, "busy", False):
                run_reader()  # the file has just been truncated
                return Gate(fp)
            return fp
        walked = []

        def gated_listdir(self, selector):
            if case.get("stale") and not walked and not getattr(in_gate, "busy", False) and selector.rstrip("/") == o["sel"].rstrip("/"):
                walked.append(1)
                run_reader()  # the writer has found the entry expired and is about to walk the directory
            return orig_listdir(self, selector)
        hbase.VFS_Real.open = gated
        hbase.VFS_Real.listdir = gated_listdir
        try:
            rw = drive.serve(cfg, wreq, tls=wtls, realfd=True)
            got_w = _mask(rw.response)
        finally:
            hbase.VFS_Real.open = orig_open
            hbase.VFS_Real.listdir = orig_listdir
        ctx.label("gated", "gated-reader-runs:%s" % ("0" if not reader_replies else "1-2" if len(reader_replies) <= 2 else "3+"),
                  "gated-stale:%s" % bool(case.get("stale")))
        ctx.count("gated_reader_runs", len(reader_replies))
        if reader_replies:
            ctx.nontriv()
        ctx.sample({"dir": o["sel"], "writer": case["writer"], "reader": case["reader"], "reader_runs": len(reader_replies)}, cls="gated")
        fails = []
        for i, rr in enumerate(reader_replies):
            if rr != want_r:
                fails.append(Fail("gated-reader-differs:%s" % (("expired-entry" if case.get("stale") and walked and i == 0 else "truncated" if i == (1 if case.get("stale") and walked else 0) else "partial")),
                                  "a %s reader of %r running while a %s writer has %s the cache file gets a different reply than alone" % (
                                      case["reader"], o["sel"], case["writer"], "just truncated" if i == 0 else "partly written"),
                                  {"reader": world.u(rr[:400]), "alone": world.u(want_r[:400])}))
                break
        if got_w != want_w:
            fails.append(Fail("gated-writer-differs", "the writer's own reply changed because a reader ran inside its window",
                              {"writer": world.u(got_w[:400]), "alone": world.u(want_w[:400])}))
        return fails
    finally:
        world.rmtree(base)


def _check_seam(case, ctx):
    objs, dirs = _targets(case["site"])
    spec = sites.to_spec(case["site"])
    base = world.fresh_dir("c14s")
    ra, rb = os.path.join(base, "A"), os.path.join(base, "B")
    os.mkdir(ra)
    os.mkdir(rb)
    world.materialise(spec, ra)
    world.materialise(spec, rb)
    srv = None
    try:
        srv = live.Server(live.write_conf(os.path.join(base, "a.conf"), ra, "full", case["servertype"], cachetime=0))
        cfg = drive.make_config(rb, "full", **{"handlers.dir.DirHandler::cachetime": "0"})
        fails = []
        n = 0
        for t, form in case["reqs"]:
            o = _pick(objs, dirs, t)
            req, tls = _request(o, form)
            try:
                got = live.request(srv.port, req, tls)
            except Exception as e:
                fails.append(Fail("seam:live-failed:%s" % clients.FORMS[form][1], "live %s request for %r failed: %r" % (form, o["sel"], e)))
                continue
            want = drive.serve(cfg, req, tls=tls, realfd=True).response
            n += 1
            if _mask(got) != _mask(want.replace(os.fsencode(rb), os.fsencode(ra))):
                fails.append(Fail("seam:differs:%s:%s" % (clients.FORMS[form][1], o.get("what", "root").split(":")[0]),
                                  "%s request for %r: the reply over a real %s socket differs from the in-process reply" % (
                                      form, o["sel"], "TLS" if tls else "plaintext"),
                                  {"live": world.u(_mask(got)[:400]), "inprocess": world.u(_mask(want)[:400])}))
        ctx.count("traces_validated_against_impl", n)
        ctx.label("seam:" + case["servertype"])
        ctx.nontriv()
        ctx.sample({"seam_requests": [[_pick(objs, dirs, t)["sel"], f] for t, f in case["reqs"]][:8]}, cls="seam")
        return _dedup(fails)
    finally:
        if srv is not None:
            srv.stop()
        world.rmtree(base)


def enumerate_cases(tier, seed):
    """many connected clients that stay silent (their request processes / threads stay alive) while others are served"""
    for st_ in ("ForkingTCPServer", "ThreadingTCPServer"):
        for idle in (10, 39):
            yield {"mode": "idle-crowd", "servertype": st_, "idle": idle}
    for st_ in ("ForkingTCPServer", "ThreadingTCPServer"):
        yield {"mode": "bad-handshakes", "servertype": st_, "n": 90}
        yield {"mode": "reset-during-relay", "servertype": st_}
        yield {"mode": "sequence", "servertype": st_}
    # a crowd of different large downloads and scripts, all released at once
    for st_ in ("ThreadingTCPServer", "ForkingTCPServer"):
        yield {"mode": "burst", "crowd": True, "servertype": st_}
        yield {"mode": "burst", "crowd": "mail", "servertype": st_}
    # the in-process / live seam on a fixed site that has one object of every kind, every object through every form
    site = [["readme.txt", {"kind": "txt", "content": "hello\nworld\n"}], ["page.html", {"kind": "html", "title": "T", "content": "<html><title>T</title></html>\n"}],
            ["pic.gif", {"kind": "bin", "content": "GIF89a\x00\x01"}], ["notes.txt.gz", {"kind": "gz", "content": "compressed\n" * 50}],
            ["run.sh", {"kind": "exec"}], ["box.mbox", {"kind": "mbox", "subjects": ["one", "two"]}], ["md", {"kind": "maildir", "subjects": ["m"]}],
            ["arc.zip", {"kind": "zip", "items": [["in.txt", {"kind": "txt", "content": "zipped\n"}]]}],
            ["sub", {"kind": "dir", "items": [["deep.txt", {"kind": "txt", "content": "deep\n"}]]}],
            ["mapped", {"kind": "map", "info": ["about"], "items": [["m.txt", {"kind": "txt", "content": "m\n"}]]}]]
    forms = FORMS + ["head", "gbang", "waphdr"]
    for st_ in ("ForkingTCPServer", "ThreadingTCPServer"):
        for part in range(3):
            reqs = [[t, f] for t in range(0, 16) for f in forms][part::3]
            yield {"mode": "seam", "site": site, "servertype": st_, "reqs": reqs}


def _check_idle_crowd(case, ctx):
    base, root = world.build([["readme.txt", "f", "hello\n"], ["d/a.txt", "f", "a\n"]], "c14")
    srv = None
    socks = []
    fails = []
    try:
        srv = live.Server(live.write_conf(os.path.join(base, "s.conf"), root, "full", case["servertype"], timeout=60))
        for i in range(case["idle"]):
            try:
                socks.append(live.connect(srv.port, 10))
            except OSError as e:
                # the listen queue is full: the server stopped accepting while earlier clients sit silent
                return [Fail("idle-crowd:%s" % case["servertype"],
                             "%d clients are connected and silent; the next connection is not accepted within 10 s: %r" % (i, e))]
        time.sleep(0.3)
        ctx.nontriv((case["servertype"], case["idle"]))
        ctx.label("idle-crowd:%s:%d" % (case["servertype"], case["idle"]))
        ctx.sample(case, cls="idle-crowd")
        t0 = time.monotonic()
        for i, (req, tls, want) in enumerate([(b"/readme.txt\r\n", False, b"hello\n"), (b"/d/a.txt\r\n", True, b"a\n"),
                                               (b"/readme.txt\r\n", False, b"hello\n"), (b"/d/a.txt\r\n", False, b"a\n")]):
            try:
                got = live.request(srv.port, req, tls, timeout=8)
            except Exception as e:  # noqa
                got = e
            if got != want:
                fails.append(Fail("idle-crowd:%s" % case["servertype"],
                                  "%d clients are connected and silent; request %d (%r) sent meanwhile is not answered within 8 s: %r" % (
                                      case["idle"], i + 1, req, got if isinstance(got, Exception) else got[:60])))
                break
        ctx.count("idle_crowd_requests", 4)
        return fails
    finally:
        for s_ in socks:
            try:
                s_.close()
            except OSError:
                pass
        if srv is not None:
            srv.stop()
        world.rmtree(base)


def _check_bad_handshakes(case, ctx):
    """many connections that fail before a request handler exists (a TLS hello that is garbage, a reset before the first
    byte, a client that goes away in mid-handshake), one after the other; the server must go on serving afterwards"""
    import struct
    base, root = world.build([["readme.txt", "f", "hello\n"], ["d/a.txt", "f", "a\n"]], "c14")
    srv = None
    fails = []
    try:
        srv = live.Server(live.write_conf(os.path.join(base, "s.conf"), root, "full", case["servertype"], timeout=5))
        base_threads = srv.threads()
        for i in range(case["n"]):
            try:
                s_ = live.connect(srv.port, 10)
            except OSError as e:
                return [Fail("bad-handshakes:%s" % case["servertype"],
                             "after %d connections that failed before or during the TLS handshake the next connection is not accepted: %r" % (i, e))]
            try:
                kind = i % 3
                if kind == 0:
                    s_.sendall(b"\x16\x03\x01\x00\x05garbage that is no client hello")
                elif kind == 1:
                    s_.setsockopt(socket.SOL_SOCKET, socket.SO_LINGER, struct.pack("ii", 1, 0))  # reset, nothing sent
                else:
                    s_.sendall(b"\x16\x03\x01\x02\x00\x01\x00\x01")  # the start of a hello, then the client goes away
                s_.close()
            except OSError:
                pass
        time.sleep(0.5)
        ctx.nontriv((case["servertype"], "bad-handshakes", case["n"]))
        ctx.label("bad-handshakes:%s:%d" % (case["servertype"], case["n"]))
        ctx.sample(case, cls="bad-handshakes")
        for i, (req, tls, want) in enumerate([(b"/readme.txt\r\n", False, b"hello\n"), (b"/d/a.txt\r\n", True, b"a\n"),
                                               (b"/readme.txt\r\n", True, b"hello\n"), (b"/d/a.txt\r\n", False, b"a\n")]):
            try:
                got = live.request(srv.port, req, tls, timeout=8)
            except Exception as e:  # noqa
                got = e
            if got != want:
                fails.append(Fail("bad-handshakes:%s" % case["servertype"],
                                  "after %d connections that failed before or during the TLS handshake, request %d (%r, tls=%s) is not "
                                  "answered within 8 s: %r" % (case["n"], i + 1, req, tls, got if isinstance(got, Exception) else got[:60])))
                break
        if not fails:
            deadline = time.time() + 8
            while time.time() < deadline:
                livec, zomb = srv.children()
                th = srv.threads()
                if zomb == 0 and livec == 0 and (th is None or base_threads is None or th <= base_threads):
                    break
                time.sleep(0.2)
            livec, zomb = srv.children()
            th = srv.threads()
            if zomb or livec or (th is not None and base_threads is not None and th > base_threads):
                fails.append(Fail("bad-handshakes-leftovers:%s" % case["servertype"],
                                  "8 s after the failed handshakes: %d live and %d zombie children, %s threads (baseline %s)" % (livec, zomb, th, base_threads)))
        return fails
    finally:
        if srv is not None:
            srv.stop()
        world.rmtree(base)


def _check_reset_during_relay(case, ctx):
    """Three clients are downloading the output of a script (relayed by the server block by block) when a fourth asks for
    the same script, reads a little and resets its connection: the three get exactly what a client gets alone, and the
    server goes on serving."""
    import struct
    script = "#!/bin/sh\ni=0\nwhile [ $i -lt 30 ]; do head -c 65536 /dev/zero | tr '\\0' 'z'; sleep 0.05; i=$((i+1)); done\necho end\n"
    base, root = world.build([["slow.sh", "f", script, 0o755], ["hello.txt", "f", "hello\n"]], "c14")
    srv = None
    fails = []
    try:
        srv = live.Server(live.write_conf(os.path.join(base, "s.conf"), root, "full", case["servertype"], timeout=20))
        plan = [("gopher", False), ("http", False), ("gophers", True)]
        ref = {}
        for form, tls in plan:
            ref[form] = live.request(srv.port, clients.encode(form, b"/slow.sh"), tls, timeout=30)
        got = {}

        def fetch(form, tls):
            try:
                got[form] = live.request(srv.port, clients.encode(form, b"/slow.sh"), tls, timeout=30)
            except Exception as e:  # noqa
                got[form] = e
        ths = [threading.Thread(target=fetch, args=p_, daemon=True) for p_ in plan]
        for t in ths:
            t.start()
        time.sleep(0.4)
        a = live.connect(srv.port, 10)
        a.sendall(b"/slow.sh\r\n")
        n = 0
        while n < 1000:
            b_ = a.recv(1000 - n)
            if not b_:
                break
            n += len(b_)
        a.setsockopt(socket.SOL_SOCKET, socket.SO_LINGER, struct.pack("ii", 1, 0))
        a.close()
        for t in ths:
            t.join(40)
        ctx.nontriv((case["servertype"], "reset-during-relay"))
        ctx.label("reset-during-relay:" + case["servertype"])
        ctx.sample(case, cls="reset-during-relay")
        for form, tls in plan:
            g = got.get(form)
            if isinstance(g, Exception) or g is None:
                fails.append(Fail("reset-during-relay:failed:%s" % case["servertype"],
                                  "while another client reset its connection in mid-download the %s download of the script failed: %r" % (form, g)))
            elif _mask(g) != _mask(ref[form]):
                fails.append(Fail("reset-during-relay:differs:%s" % case["servertype"],
                                  "while another client reset its connection in mid-download the %s download of the script delivered %d "
                                  "bytes, alone it delivers %d" % (form, len(g), len(ref[form]))))
        try:
            if live.request(srv.port, b"/hello.txt\r\n", timeout=8) != b"hello\n":
                fails.append(Fail("reset-during-relay:server-impaired:%s" % case["servertype"], "afterwards the server answers wrongly"))
        except Exception as e:  # noqa
            fails.append(Fail("reset-during-relay:server-impaired:%s" % case["servertype"], "afterwards the server does not answer: %r" % (e,)))
        if not srv.alive():
            fails.append(Fail("reset-during-relay:server-died:%s" % case["servertype"], "the server process is gone"))
        return _dedup(fails)
    finally:
        if srv is not None:
            srv.stop()
        world.rmtree(base)


def _check_sequence(case, ctx):
    """requests of different kinds of client, one after the other, on one long-running server: each gets what it gets from a
    server that has just started (nothing a request did may colour the next one)"""
    base = world.fresh_dir("c14")
    ra = os.path.join(base, "A")
    os.mkdir(ra)
    spec = [["readme.txt", "f", "hello\n"], ["d/a.txt", "f", "a\n"], ["d/b.html", "f", "<html><title>B</title></html>\n"]]
    world.materialise(spec, ra)
    srv = None
    fails = []
    try:
        srv = live.Server(live.write_conf(os.path.join(base, "a.conf"), ra, "full", case["servertype"], cachetime=0))
        bare = lambda p_: b"GET " + p_ + b" HTTP/1.0\r\n\r\n"  # noqa: E731
        seq = [(clients.encode("waphdr", b"/"), False), (bare(b"/"), False), (clients.encode("http", b"/d"), False),
               (clients.encode("waphdr", b"/d"), True), (bare(b"/d"), True), (b"/d\t$\r\n", False), (bare(b"/readme.txt"), False),
               (clients.encode("gemini", b"/d"), True), (bare(b"/"), False)]
        ctx.nontriv((case["servertype"], "sequence"))
        ctx.label("sequence:" + case["servertype"])
        ctx.sample(case, cls="sequence")
        for i, (rq, tls) in enumerate(seq):
            got = live.request(srv.port, rq, tls, timeout=15)
            rb = os.path.join(base, "B%d" % i)
            os.mkdir(rb)
            world.materialise(spec, rb)
            fresh = live.Server(live.write_conf(os.path.join(base, "b%d.conf" % i), rb, "full", case["servertype"], cachetime=0))
            try:
                want = live.request(fresh.port, rq, tls, timeout=15)
            finally:
                fresh.stop()
            ctx.count("sequence_requests")
            if _mask(got) != _mask(want):
                fails.append(Fail("sequence-differs:%s" % case["servertype"],
                                  "request %d of a sequence on one server (%r, tls=%s) is answered differently than by a server that has just "
                                  "started: %r vs %r" % (i + 1, rq[:60], tls, _mask(got)[:100], _mask(want)[:100])))
                break
        return fails
    finally:
        if srv is not None:
            srv.stop()
        world.rmtree(base)


def check_case(case, ctx):
    if case["mode"] == "sequence":
        return _check_sequence(case, ctx)
    if case["mode"] == "reset-during-relay":
        return _check_reset_during_relay(case, ctx)
    if case["mode"] == "idle-crowd":
        return _check_idle_crowd(case, ctx)
    if case["mode"] == "bad-handshakes":
        return _check_bad_handshakes(case, ctx)
    if case["mode"] == "burst":
        return _check_burst(case, ctx)
    if case["mode"] == "gated":
        return _check_gated(case, ctx)
    if case["mode"] == "lazyinit":
        return _check_lazyinit(case, ctx)
    return _check_seam(case, ctx)
