"""C03 - Every request is answered with one well-formed response, whatever came before."""
from __future__ import annotations

import os
import re

from hypothesis import strategies as st

from pgv import clients, drive, gen, sites, world
from pgv.core import Fail
from pgv.model import proto as M

ID = "C03"
LEVEL = "exploration"
RULE = ("Mode 'single': a generated site (dirs, gophermaps, mbox, Maildir, HTML, binary; ZIP, gzip, scripts with "
        "the full handler list) and one request = target (existing object / missing / raw bytes) x mutation (NUL, "
        "bad or huge message number, message suffix on a non-mailbox, trailing/double slash, dot-dot, empty Gopher+ "
        "field, malformed Gemini authority, wrong Spartan length, missing header terminator, over-long line) x "
        "protocol form; oracles: nothing escapes the connection handler, only FileNotFound is ever logged as an "
        "exception, the reply parses under the client-side grammar of the detected protocol and is non-empty "
        "unless the target is an empty file/directory. Mode 'history': 2-10 read-only requests in one process "
        "with caching on and module state kept; every reply must equal the reply to the same request alone on "
        "a pristine tree (directory timestamps masked). Non-trivial: malformed/virtual/missing target, or a "
        "history step following a listing that left a cache file in a directory it touches. Mode 'live' (two cases): 18 selectors x 13 "
        "forms over real sockets and real TLS against threading and forking servers; every reply must equal the in-process reply.")
ASSUMPTIONS = [
    "content is well-formed (quantifier); strings that become Gopher menu fields contain no TAB/CR/LF",
    "a pristine tree is emulated by deleting the server's cache files and resetting its lazily initialised "
    "module tables before the solo request",
    "bounded time = a 60 s watchdog per request (normal latency < 10 ms); no complexity claim",
]

FORMS = ["gopher", "gophers", "gplus", "gpluss", "gdollar", "gbang", "http", "https", "head", "wap",
         "waphdr", "gemini", "spartan"]
MUTATIONS = ["none", "none", "none", "nul", "msg0", "msgneg", "msghuge", "msgx", "msgon", "slash", "dslash",
             "dotdot", "missing", "pctnul", "qmark", "bar", "dotseg", "dotseg", "tslash2", "tslash2",
             # argument parts (what follows '?' or '|' goes to a script as its arguments) in shell-like syntax
             "qquote", "barquote", "qbslash", "qshell",
             # type prefixes as old URL-style clients send them ('/0/file'; a rewriting handler of the full list strips them)
             "typeprefix", "typeprefix2", "typeprefixdeep"]
# long regular strings after the prefixes the handlers test with regular expressions (a pattern that backtracks on them
# never finishes)
_REDOS = [pre + unit * n + post for pre in ("URL:", "/URL:", "/", "GET /URL:", "gemini://h/URL:", "h /URL:")
          for unit, n in (("a", 40), ("a.", 25), ("a-b+", 12), ("0", 64), ("www.example-host.org", 3))
          for post in ("\r\n", "/index.html\r\n")]
_REDOS = [r if not r.startswith(("GET ", "h ")) else (r[:-2] + (" HTTP/1.0\r\n\r\n" if r.startswith("GET ") else " 0\r\n")) for r in _REDOS]
RAW = _REDOS + ["\t\r\n", "x\t\r\n", "x\tq\t\r\n", "\t\t\t\t\r\n", "gemini://[/\r\n", "gemini://[::1/x\r\n", "gemini://\r\n",
       "gemini://h\r\n", "gemini://h/GEMINI-QUERY/x\r\n", "gemini://h/GEMINI-QUERY/x?a%20b\r\n",
       "GET / HTTP/1.0\r\n", "GET /", "GET / HTTP/1.0\r\nAccept", "GET /?searchrequest HTTP/1.0\r\n\r\n",
       "GET /?searchrequest=%ff&x=1 HTTP/1.0\r\n\r\n", "GET /PYGOPHERD-HTTPPROTO-ICONS/text.gif HTTP/1.0\r\n\r\n",
       "GET /PYGOPHERD-HTTPPROTO-ICONS/nope.gif HTTP/1.0\r\n\r\n", "HEAD /PYGOPHERD-HTTPPROTO-ICONS/text.gif HTTP/1.0\r\n\r\n",
       "GET /wap HTTP/1.0\r\n\r\n", "GET /wapx HTTP/1.0\r\n\r\n", "h / 10\r\nabc", "h / 0\r\nextra", "h / 3\r\n\xff\xfe\xfd",
       "h /%zz 0\r\n", "h  0\r\n", "/URL:http://x/\r\n", "URL:http://x/y\"z\r\n", "URL:\r\n", "/URL:x://\r\n",
       "/" + "a" * 5000 + "\r\n", "GET /" + "%41" * 2000 + " HTTP/1.0\r\n\r\n", "\r\n", "", "\n", "\x00\r\n",
       "/\t+\r\n", "/\t$\r\n", "/\t!\r\n", "/nonexistent\t!\r\n", "/nonexistent\t$\r\n", "/\tq\t+\r\n", "/\t\t$\r\n",
       # Gopher+ request suffixes in the shapes clients of other servers send (attribute lists, view selectors)
       "/\t!+\r\n", "/\t$+\r\n", "/\t!+INFO+\r\n", "/\t!++ABSTRACT\r\n", "/\t$+INFO++VIEWS\r\n", "/\t!+INFO+ADMIN\r\n", "/\t$+VIEWS\r\n",
       "/\t+text/plain\r\n", "/\t+application/gopher+-menu En_US\r\n", "/\t+\t1\r\n", "/\t$\t1\r\ndata\r\n.\r\n"]


# request targets made of URL metacharacters (authority brackets, scheme, userinfo, port, query, fragment) in every URL-based
# request syntax; the compatibility character U+2100 folds to 'a/c' when a URL parser NFKC-normalises the host
_url_target = st.lists(st.sampled_from(["[", "]", ":", "/", "//", "?", "#", "@", "%", "%zz", "%00", "http:", "gemini:", "x", "h", "::1", "70",
                                        "readme.txt", "\xe2\x84\x80", ".", "..", " ", "\\"]), min_size=1, max_size=7).map("".join)
_url_target_line = st.builds(lambda pre, t, post: pre + t + post,
                             st.sampled_from(["GET ", "HEAD ", "GET /wap", "gemini://", "gemini:", "h ", "GET http://", "GET //"]),
                             _url_target, st.sampled_from([" HTTP/1.0\r\n\r\n", " 0\r\n", "\r\n", " HTTP/1.0\r\nHost: [\r\n\r\n"]))


@st.composite
def _request(draw):
    return {
        "target": draw(st.integers(0, 40)),
        "mut": draw(st.sampled_from(MUTATIONS)),
        "form": draw(st.sampled_from(FORMS)),
        "raw": draw(st.one_of(st.none(), st.none(), st.none(), st.sampled_from(RAW),
                              st.binary(max_size=30).map(world.u), _url_target_line)),
        "rawtls": draw(st.booleans()),
        "search": draw(st.one_of(st.none(), st.none(), st.sampled_from(["q", "a b", "\xff", ""]))),
        "bare": draw(st.sampled_from([False, False, True])),
    }


@st.composite
def _case(draw):
    full = draw(st.booleans())
    site = draw(sites.site(full=full, depth=2, max_items=4))
    mode = draw(st.sampled_from(["single", "single", "history"]))
    if mode == "single":
        return {"mode": "single", "full": full, "site": site, "req": draw(_request())}
    reqs = draw(st.lists(_request(), min_size=2, max_size=10))
    # concentrate most steps on one or two targets (so that caches written by one protocol are read by another)
    focus = draw(st.lists(st.sampled_from([0, 5, 10, 1, 2, 3, 4, 6, 7]), min_size=1, max_size=2))
    if draw(st.integers(0, 3)) == 0:
        # item-information requests for HTML pages (their titles come from a parser run per file), in a row
        for k in draw(st.lists(st.integers(0, 5), min_size=2, max_size=4)):
            rq = draw(_request())
            rq.update(target=k + 1, pick="html", mut="none", raw=None, form=draw(st.sampled_from(["gbang", "gbang", "gdollar", "gopher"])))
            reqs.append(rq)
    alias = draw(st.booleans())
    if alias:
        focus = [1, 2]  # the aliased directory and its alias (see check_case)
    for rq in reqs:
        if draw(st.integers(0, 9)) < 7:
            rq["target"] = draw(st.sampled_from(focus))
            rq["mut"] = draw(st.sampled_from(["none", "none", "none", "slash"]))
            rq["raw"] = None
    return {"mode": "history", "full": full, "site": site, "reqs": reqs, "alias": alias}


def strategy(tier):
    return _case()


def enumerate_cases(tier, seed):
    """live differential: the same requests over real sockets (plaintext and real TLS) and through the in-process seam"""
    yield {"mode": "live", "servertype": "ThreadingTCPServer"}
    yield {"mode": "live", "servertype": "ForkingTCPServer"}
    yield {"mode": "live", "servertype": "ThreadingTCPServer", "log": "file-strict"}
    # every argument-part mutation for a script and for a plain file, through every form (in-process)
    site = [["run.sh", {"kind": "exec"}], ["readme.txt", {"kind": "txt", "content": "hello\n"}]]
    # menus that are FILES ('*.gophermap'), on disk and as archive members, through every form
    # (five objects: index 0 is never addressed - a target that is a multiple of 5 means the root)
    mapsite = [["readme.txt", {"kind": "txt", "content": "hello\n"}],
               ["top.gophermap", {"kind": "mapfile", "content": "iWelcome\n0Read me\treadme.txt\n1Sub\t/sub\n7Find it here\t/cgi bin/find it.sh\n7Recherche 100%\t/caf\xe9 q.sh\n"}],
               ["arc.zip", {"kind": "zip", "items": [["menu.gophermap", {"kind": "mapfile", "content": "iIn the archive\n0Member\tm.txt\n"}],
                                                       ["m.txt", {"kind": "txt", "content": "member\n"}]]}]]
    nobj = len(sites.objects(mapsite))
    for target in range(1, 5 * nobj + 1):
        if target % 5 == 0 or target > nobj and (target % nobj) in [t % nobj for t in range(1, target) if t % 5]:
            continue
        for form in FORMS:
            yield {"mode": "single", "full": True, "site": mapsite,
                   "req": {"target": target, "mut": "none", "form": form, "raw": None, "rawtls": False, "search": None, "bare": False}}
    # mail folders whose subjects are RFC 2047 words standing for control characters, through every form
    import base64
    hidden = ["=?utf-8?q?tab=09inside?=", "=?utf-8?b?%s?=" % base64.b64encode(b"two\r\n1lines\t/\tgopher.example.org\t70").decode(),
              "=?iso-8859-1?q?a=0D=0Ab?=", "plain subject"]
    mailsite = [["box.mbox", {"kind": "mbox", "subjects": hidden}], ["md", {"kind": "maildir", "subjects": hidden[:2]}]]
    nmail = len(sites.objects(mailsite))
    for target in range(1, nmail + 3):
        if target % 5 == 0:
            continue
        for form in FORMS:
            yield {"mode": "single", "full": False, "site": mailsite,
                   "req": {"target": target, "mut": "none", "form": form, "raw": None, "rawtls": False, "search": None, "bare": False}}
    for target in (2, 1):
        for mut in ("qmark", "bar", "qquote", "barquote", "qbslash", "qshell", "typeprefix", "typeprefix2", "typeprefixdeep"):
            for form in FORMS:
                yield {"mode": "single", "full": True, "site": site,
                       "req": {"target": target, "mut": mut, "form": form, "raw": None, "rawtls": False, "search": None, "bare": False}}


LIVE_SPEC = [
    ["readme.txt", "f", "hello\nworld\n"], ["empty.txt", "f", ""], ["big.bin", "f", "".join(chr(i % 251) for i in range(150000))],
    ["page.html", "f", "<html><head><title>A Page</title></head><body>x</body></html>\n"], ["dir/sub/deep.txt", "f", "deep\n"],
    ["dir/a b.txt", "f", "blank in name\n"], ["dir/caf\xe9 \xff.txt", "f", "a name that is not UTF-8\n"],
    # (an entry nobody can serve, with such a name: it is left out of the listing - and the log record about it is written)
    ["dir/gon\xe9 \xff link", "l", "nowhere"], ["dir/.names", "f", "Path=./sub\nName=Sub Dir\n"], ["box.mbox", "f", None],
    ["arc.zip", "zip", {"members": [["in/x.txt", "f", "zip member\n", {}], ["big.dat", "f", "z" * 70000, {}]]}],
    ["c.txt.gz", "f", None], ["run.sh", "f", None, 0o755],
]
LIVE_SELS = ["/", "/readme.txt", "/empty.txt", "/big.bin", "/page.html", "/dir", "/dir/sub/deep.txt", "/dir/a b.txt", "/dir/caf\xe9 \xff.txt", "/box.mbox",
             "/box.mbox|/MBOX-MESSAGE/1", "/arc.zip", "/arc.zip/in/x.txt", "/arc.zip/big.dat", "/arc.zip/big.txt.gz", "/c.txt.gz", "/run.sh", "/nosuch",
             "/dir/../readme.txt", "/URL:http://example.org/"]


def _check_live(case, ctx):
    from pgv import live
    spec = [list(e) for e in LIVE_SPEC]
    for e in spec:
        if e[0] == "box.mbox":
            e[2] = sites.mbox_text(["first subject", "second"])
        elif e[0] == "c.txt.gz":
            e[2] = sites.gz_text("compressed text\n" * 300)
        elif e[0] == "run.sh":
            e[2] = sites.SCRIPT
        elif e[0] == "arc.zip":
            # a compressed member that is large both packed and unpacked (1 MiB of bytes no compressor shrinks): a server
            # that feeds the decompressor must also drain it
            import hashlib
            junk = b"".join(hashlib.sha256(b"%d" % i).digest() for i in range(32768)).decode("latin-1")
            e[2] = {"members": list(e[2]["members"]) + [["big.txt.gz", "f", sites.gz_text(junk), {}]]}
    base, root = world.build(spec, "c03live")
    srv = None
    fails = []
    try:
        conf = live.write_conf(os.path.join(base, "live.conf"), root, "full", case["servertype"], cachetime=0)
        if case.get("log") == "file-strict":
            # the server logs to its standard output (logmethod = file), and that stream encodes strictly, as under any
            # ordinary UTF-8 locale: a request line that is not valid UTF-8 must still be logged and answered
            import configparser
            cp = configparser.ConfigParser()
            cp.read(conf)
            cp.set("logger", "logmethod", "file")
            with open(conf, "w") as f:
                cp.write(f)
            srv = live.Server(conf, capture_log=True, env={"PYTHONIOENCODING": "utf-8:strict"})
        else:
            srv = live.Server(conf)
        cfg = drive.make_config(root, "full", **{"handlers.dir.DirHandler::cachetime": "0"})
        for sel in LIVE_SELS:
            for form in FORMS:
                tls, fam = clients.FORMS[form]
                req = clients.encode(form, world.b(sel))
                try:
                    got = live.request(srv.port, req, tls, timeout=30)
                except Exception as e:  # noqa
                    got = e
                ref = drive.serve(cfg, req, tls=tls, realfd=True)
                ctx.evaluations += 1
                ctx.count("live_requests")
                ctx.nontriv(("live", case["servertype"], sel, form))
                if isinstance(got, Exception):
                    fails.append(Fail("live-no-response:%s:%s" % (fam, "tls" if tls else "plain"),
                                      "over a real %s connection the %s request for %r got no complete response: %r" % (
                                          "TLS" if tls else "plaintext", form, sel, got)))
                    continue
                a, b = _mask(got), _mask(ref.response)
                if a != b:
                    i = next((k for k, (x, y) in enumerate(zip(a, b)) if x != y), min(len(a), len(b)))
                    fails.append(Fail("live-differs:%s:%s" % (fam, "tls" if tls else "plain"),
                                      "over a real %s connection (%s) the %s reply for %r differs from the reply of the same "
                                      "code driven in-process, at byte %d (%d vs %d bytes)" % (
                                          "TLS" if tls else "plaintext", case["servertype"], form, sel, i, len(a), len(b)),
                                      {"live": world.u(a[max(0, i - 40):i + 80]), "inprocess": world.u(b[max(0, i - 40):i + 80])}))
        if not srv.alive():
            fails.append(Fail("live-server-died", "the live server exited"))
        ctx.label("live:" + case["servertype"])
        ctx.sample({"live": case["servertype"], "selectors": LIVE_SELS, "forms": FORMS}, cls="live")
        seen, out = set(), []
        for f in fails:
            if f.sig not in seen:
                seen.add(f.sig)
                out.append(f)
        return out
    finally:
        if srv is not None:
            srv.stop()
        world.rmtree(base)


def examples(tier):
    return 4000 if tier == "quick" else 120000


def _mutate(sel, mut):
    if mut == "nul":
        return sel + "\0x"
    if mut == "pctnul":
        return sel + "%00"
    if mut == "msg0":
        return sel + "|/MBOX-MESSAGE/0"
    if mut == "msgneg":
        return sel + "|/MAILDIR-MESSAGE/-1"
    if mut == "msghuge":
        return re.sub(r"\|.*$", "", sel) + "|/MBOX-MESSAGE/99999999999999999999"
    if mut == "msgx":
        return re.sub(r"\|.*$", "", sel) + "|/MAILDIR-MESSAGE/1x"
    if mut == "msgon":
        return re.sub(r"\|.*$", "", sel) + "|/MBOX-MESSAGE/1"
    if mut == "slash":
        return sel + "/"
    if mut == "dslash":
        return sel.replace("/", "//", 1)
    if mut == "dotdot":
        return sel + "/../" + sel.strip("/").split("/")[0]
    if mut == "missing":
        return sel + "-missing"
    if mut == "dotseg":
        return (sel if sel != "/" else "") + "/."
    if mut == "tslash2":
        return (sel if sel != "/" else "") + "//"  # one '/' is stripped by the protocols: an alias ending in '/'
    if mut == "qmark":
        return sel + "?arg1 arg2"
    if mut == "bar":
        return sel + "|"
    if mut == "qquote":
        return sel + "?it's"
    if mut == "barquote":
        return sel + "|say \"hi"
    if mut == "qbslash":
        return sel + "?C:\\"
    if mut == "qshell":
        return sel + "?$(x) `y` ;z 'a b'"
    if mut.startswith("typeprefix"):
        return "/0" * {"typeprefix": 1, "typeprefix2": 2, "typeprefixdeep": 600}[mut] + (sel if sel != "/" else "/x")
    return sel


_ROOT = {"sel": "/", "kind": "menu", "what": "root"}


def _obj(objs, rq):
    """the object a structured request addresses"""
    if rq.get("pick"):
        # the k-th object of one kind (e.g. HTML pages, whose listing entry is computed by parsing the file)
        sub = [x for x in objs if x["what"] == rq["pick"]]
        if sub:
            return sub[rq["target"] % len(sub)]
    return objs[rq["target"] % len(objs)] if rq["target"] % 5 else _ROOT


def _empty_ok(objs, rq):
    """the addressed object legitimately has an empty body (empty file / empty decompressed file)"""
    # (one type prefix is taken off by the rewriting handler of the full list: the request then addresses the object itself)
    if rq["raw"] is not None or rq["mut"] not in ("none", "slash", "typeprefix"):
        return False
    o = _obj(objs, rq)
    if o is _ROOT:
        return True  # root listing may be empty if everything in it is hidden
    return o["kind"] == "menu" or o.get("content") == ""


_NOTFOUND_MUTS = {"nul", "pctnul", "msg0", "msgneg", "msghuge", "msgx", "dslash", "dotdot", "missing", "dotseg"}


def _expected(objs, rq):
    """'menu' | 'doc' | 'error' | None (unknown) for a structured request, from the site description alone"""
    if rq["raw"] is not None:
        return None
    o = _obj(objs, rq)
    root = o is _ROOT
    mut = rq["mut"]
    if mut in ("none", "slash"):
        if mut == "slash" and "|" in o["sel"]:
            return None
        return o["kind"]
    if mut in _NOTFOUND_MUTS:
        if mut == "missing" and any(x["sel"] == o["sel"] + "-missing" for x in objs):
            return None
        if mut == "dslash" and root:
            return None  # '//' -> after slash normalisation still contains '//': not found; keep unknown for '/'
        if mut.startswith("msg") and o["what"] in ("exec", "zip:exec"):
            return None  # a script takes whatever follows '|' or '?' as its arguments
        return "error"
    return None


def _build_request(objs, rq):
    """-> (request bytes, tls, form or None, selector latin-1 or None, mutated: bool)"""
    if rq["raw"] is not None:
        return world.b(rq["raw"]), rq["rawtls"], None, None, True
    o = _obj(objs, rq)
    sel = _mutate(o["sel"], rq["mut"])
    form = rq["form"]
    fam = clients.FORMS[form][1]
    selb = world.b(sel)
    if fam in ("gopher", "gplus", "gdollar", "gbang") and re.search(rb"[\t\r\n]", selb):
        selb = re.sub(rb"[\t\r\n]", b"_", selb)
    search = world.b(rq["search"]) if rq["search"] is not None else None
    if search is not None and fam in ("gopher", "gplus", "gdollar", "gbang"):
        search = re.sub(rb"[\t\r\n]", b" ", search)
    req = clients.encode(form, selb, search=search)
    if rq.get("bare") and fam in ("http", "head", "wap") and form != "waphdr":
        req = req.split(b"\r\n", 1)[0] + b"\r\n\r\n"  # a complete HTTP/1.0 request without any header line
    return req, clients.FORMS[form][0], form, sel, rq["mut"] != "none"


def _detected_form(req, tls):
    """form for parse_response from the model classifier; None if unsettled"""
    line = req.split(b"\n", 1)[0] + (b"\n" if b"\n" in req else b"")
    rest = req[len(line):]
    want, sh = M.expected_winners(line, rest, tls, M.SHIPPED_ORDER)
    if len(want) != 1:
        return None
    w = next(iter(want))
    if w is None:
        return None
    fam = M.CLASSES[w][0]
    if fam == "gopher":
        return "gophers" if tls else "gopher"
    if fam == "gplus":
        last = M._chomp(line).split(b"\t")[-1].strip()
        k = {b"+": "gplus", b"$": "gdollar", b"!": "gbang"}.get(last[:1], "gplus")
        return k if not tls else ("gpluss" if k == "gplus" else k)
    if fam == "http":
        return "head" if line.startswith(b"HEAD") else ("https" if tls else "http")
    if fam == "wap":
        return "wap"
    return fam


def _disk_kind(root, selb):
    """What the raw selector addresses on disk: 'emptyfile' | 'dir' | 'other' (harness-side, independent)."""
    s = selb.strip()
    s = s.split(b"\t")[0].strip()
    if s.endswith(b"/"):
        s = s[:-1]
    if not s.startswith(b"/"):
        s = b"/" + s
    p = os.fsencode(root) + s
    try:
        if b"\0" in p:
            return "other"
        if os.path.isdir(p):
            return "dir"
        if os.path.isfile(p) and os.path.getsize(p) == 0:
            return "emptyfile"
        if os.path.isfile(p) and p.endswith(b".gz"):
            import gzip
            with open(p, "rb") as f:
                if gzip.decompress(f.read()) == b"":
                    return "emptyfile"
    except (OSError, ValueError):
        pass
    return "other"


def _wellformed(root, req, tls, form, r, empty_ok=False, expected=None):
    """Oracle (a)+(b) on one Result. Returns list of Fail."""
    fails = []
    if isinstance(r.escaped, drive.ReadsBeyondRequest):
        return [Fail("waits-for-more-input:%s" % (form or "raw"),
                     "request %r is complete, yet the server goes on reading from the connection (%s): a client that "
                     "keeps the connection open gets no reply before the socket timeout" % (req[:80], r.escaped))]
    if r.escaped is not None:
        fails.append(Fail("escaped:" + drive.exc_signature(r.escaped),
                          "request %r: %r escaped the connection handler" % (req[:80], r.escaped)))
        return fails
    bad = [s for e, s in zip(r.handled, r.handled_signatures()) if type(e).__name__ != "FileNotFound"]
    logged = [c for c in r.exception_classes() if c != "FileNotFound"]
    if bad or logged:
        sig = bad[0] if bad else logged[0]
        fails.append(Fail("internal-error:" + sig,
                          "request %r (tls=%r) was answered by an internal error: %s" % (req[:80], tls, r.logs[-1:]),
                          {"response": world.u(r.response[:200])}))
    pform = form or _detected_form(req, tls)
    if pform is None:
        return fails
    fam = clients.FORMS[pform][1]
    pr = clients.parse_response(pform, r.response)
    if pr.problems:
        if not (fails and r.response == b""):
            fails.append(Fail("malformed-%s:%s" % (fam, re.sub(r"[^a-zA-Z ]", "", pr.problems[0])[:40].strip().replace(" ", "-")),
                              "request %r: reply is not valid %s: %s" % (req[:80], fam, pr.problems[:2]),
                              {"response": world.u(r.response[:300])}))
    if expected is not None and not fails and not pr.problems and fam not in ("gdollar", "gbang"):
        got = pr.kind
        if fam == "gplus":
            got = "ok" if pr.ok else "error"
            want = "error" if expected == "error" else "ok"
        elif fam == "head":
            got = "ok" if pr.ok else "error"
            want = "error" if expected == "error" else "ok"
        elif fam == "gopher":
            # no status line: an expected error must be exactly one error line; an expected menu must be menu syntax
            want = expected
            if expected == "menu":
                got = "menu" if (pr.ok and not clients.menu_problems(r.response)) else pr.kind
            elif expected == "doc":
                got = "doc" if pr.ok else pr.kind
        else:
            want = expected
        if got != want:
            fails.append(Fail("wrong-outcome:%s:want-%s-got-%s" % (fam, want, got),
                              "request %r should be answered with %s, got %s" % (req[:80], want, got),
                              {"response": world.u(r.response[:300])}))
    if fam == "gopher" and r.response == b"" and not fails and not empty_ok:
        line = req.split(b"\n", 1)[0]
        if _disk_kind(root, line) not in ("emptyfile", "dir"):
            fails.append(Fail("empty-reply", "request %r got no reply at all" % (req[:80],)))
    if fam in ("gplus",) and pr.ok and pr.length is not None and pr.length != len(pr.body):
        fails.append(Fail("gplus-length", "Gopher+ announced %d bytes, sent %d" % (pr.length, len(pr.body))))
    return fails


_MASKS = [(re.compile(rb"Last-Modified: [^\r\n]*\r\n"), b"Last-Modified: X\r\n"),
          (re.compile(rb" Mod-Date: [^\r\n]*\r\n"), b" Mod-Date: X\r\n")]


def _mask(b):
    for rx, rep in _MASKS:
        b = rx.sub(rep, b)
    return b


def _cfg(root, full, cachetime):
    return drive.make_config(root, "full" if full else "shipped",
                             **{"handlers.dir.DirHandler::cachetime": str(cachetime)})


def check_case(case, ctx):
    if case.get("mode") == "live":
        return _check_live(case, ctx)
    objs = sites.objects(case["site"])
    spec = sites.to_spec(case["site"])
    full = case["full"]
    if case.get("alias"):
        # a second name for a real directory: a symlink in the root (the tree stays inside the root)
        dirs = [o for o in objs if o["what"] == "dir" and not re.search(r"[|?\t\r\n]", o["sel"])]
        if dirs and not any(o["sel"] == "/zzalias" for o in objs):
            spec.append(["zzalias", "l", dirs[0]["sel"].lstrip("/")])
            alias = {"sel": "/zzalias", "kind": "menu", "what": "diralias", "content": None}
            # index 0 is never addressed (target % 5 == 0 is the root): put the pair where the focus targets 1, 2 land
            objs = [objs[0], dirs[0], alias] + [o for o in objs[1:] if o is not dirs[0]] if objs[0] is not dirs[0] else \
                [dirs[0], alias, dirs[0]] + objs[1:]
            ctx.label("history:directory-alias")
    if case["mode"] == "single":
        d, root = world.build(spec)
        try:
            req, tls, form, sel, mutated = _build_request(objs, case["req"])
            cfg = _cfg(root, full, 180)
            # structured requests are complete by construction: the client then keeps the connection open
            r = drive.serve(cfg, req, tls=tls, realfd=full, open_conn=form is not None,
                            segment=[None, 1, 7, 1460][case["req"]["target"] % 4])
            ctx.label("single", "form:%s" % (form or "raw"), "mut:%s" % (case["req"]["mut"] if form else "raw"))
            if form is not None and case["req"].get("bare") and clients.FORMS[form][1] in ("http", "head", "wap"):
                ctx.label("http-without-header-lines")
            if mutated or (sel and "|" in sel):
                ctx.nontriv()
                ctx.sample(cls="single:" + (case["req"]["mut"] if form else "raw"))
            return _wellformed(root, req, tls, form, r, _empty_ok(objs, case["req"]), _expected(objs, case["req"]))
        finally:
            world.rmtree(d)
    # history
    dh, rooth = world.build(spec, "h")
    ds, roots = world.build(spec, "s")
    fails = []
    try:
        cfgh = _cfg(rooth, full, 180)
        cfgs = _cfg(roots, full, 180)
        drive.reset_globals()
        listed = False
        nt = False
        for i, rq in enumerate(case["reqs"]):
            req, tls, form, sel, mutated = _build_request(objs, rq)
            rh = drive.serve(cfgh, req, tls=tls, realfd=full, reset=False)
            # solo: pristine tree, pristine process state
            world.remove_caches(roots)
            snap = drive.snapshot_globals()
            rs = drive.serve(cfgs, req, tls=tls, realfd=full, reset=True)
            drive.restore_globals(snap)  # the history side keeps its lazily initialised tables
            fails += _wellformed(rooth, req, tls, form, rh, _empty_ok(objs, rq), _expected(objs, rq))
            a, b = _mask(rh.response), _mask(rs.response.replace(os.fsencode(roots), os.fsencode(rooth)))
            if listed:
                nt = True
            if os.path.exists(os.path.join(rooth, ".cache.pygopherd.dir")) or any(
                    n.startswith(b".cache.pygopherd") for dp, dn, fn in os.walk(os.fsencode(rooth)) for n in fn):
                listed = True
            if a != b:
                fails.append(Fail("history-dependence",
                                  "step %d: reply to %r differs from its solo reply" % (i, req[:60]),
                                  {"after_history": world.u(a[:400]), "solo": world.u(b[:400])}))
                break
        ctx.label("history", "history-len:%d" % len(case["reqs"]))
        if nt:
            ctx.nontriv()
            ctx.sample(cls="history")
        return fails
    finally:
        world.rmtree(dh)
        world.rmtree(ds)
