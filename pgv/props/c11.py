"""C11 - A cache file cut off at any byte is harmless."""
from __future__ import annotations

import os
import time

from hypothesis import strategies as st

from pgv import clients, drive, gen, world
from pgv.core import Fail

ID = "C11"
LEVEL = "fault_enumeration"
EXHAUSTIVE = True
RULE = ("Directories are drawn by Hypothesis (plain, with link files / .cap / abstracts, inside a ZIP's parent); for each, a "
        "first request writes the cache file(s); then EVERY prefix length 0..size of every cache file (and a zero-filled "
        "file of full length) replaces the file, each followed by a listing request whose reply must equal the uncached "
        "reference listing byte for byte. The prefix lengths are enumerated completely per directory (exhaustive: true "
        "refers to this enumeration; the directories themselves are sampled). Concurrent readers: the states a reader "
        "can observe while a writer runs are recorded through a write gate and each is replayed as a reader request; "
        "second actor: for prefixes 0, 1, size/2, size-1, before each of the reader's file-system calls that touch the "
        "cache file another request removes, completes, extends, truncates or shortens the file - also starting from the complete "
        "file - (every call index x the actions); rewrite race: "
        "with an expired complete cache in place and a same-length rename in the directory, every state of the file "
        "observed while the writer rewrites it is replayed as a reader request, and the rewriter is also really killed (forked "
        "child, 0 / 1 / size/2 bytes written) with the next request required to show the current directory whatever the dead "
        "writer left next to the file; killed writer: the cache-writing request runs "
        "in a forked child that dies inside the serialisation after 0 / 1 / size/2 / size-1 bytes, then the directory is listed; "
        "full disk: in a forked child no file can grow beyond 0 / 1 / size/2 / size-4097 / size-100 / size-1 bytes (RLIMIT_FSIZE): "
        "the cache-writing request and the next one (which finds the cut-off file and cannot rewrite it either) must both deliver "
        "the listing; cut while decoding: the reader request runs in a forked child whose audit hook truncates the file (to 0 / 1 / size/2 "
        "bytes) at the decoder's first class look-up, i.e. after the reader has opened the file and before it has consumed it - "
        "the child must survive and deliver the listing. "
        "Non-trivial: prefix strictly between 0 and size; distinct = (directory hash, file, prefix length).")
ASSUMPTIONS = [
    "a killed writer, a full disk and a reader racing a writer all leave a prefix of the bytes the writer would have "
    "written (checked per directory by the write gate: every observed intermediate state is a prefix of the final file)",
    "the cache file's mtime is fresh when the truncated file is read (otherwise the file is ignored anyway)",
]
SHARDS_PER_DIR = 16

_dirs_cache = {}


@st.composite
def _dir(draw):
    n = draw(st.integers(1, 4))
    files = draw(st.lists(st.tuples(gen.names(toplevel=True, hostile_ratio=0.3), st.sampled_from(["f", "f", "d", "h"])),
                          min_size=n, max_size=n, unique_by=lambda t: t[0] + (".html" if t[1] == "h" else "")))
    deco = draw(st.sampled_from(["plain", "plain", "names", "cap", "abstract", "zipparent", "abstract-linksyntax"]))
    # the listed directory: the root, or a sub-directory whose name (part of every selector, path and log line on the way)
    # contains what a format string, a URL or a pattern would expand
    where = draw(st.sampled_from(["", "", "sub", "50%", "rate%d", "100% juice", "a b", "caf\xc3\xa9", "{0}", "x\\1"]))
    return {"files": [list(f) for f in files], "deco": deco, "title": draw(st.text("abcdef", min_size=1, max_size=5)), "where": where}


def _draw_dirs(tier, seed):
    key = (tier, seed)
    if key in _dirs_cache:
        return _dirs_cache[key]
    from hypothesis import HealthCheck, Phase, Verbosity, given, seed as hseed, settings
    n = 5 if tier == "quick" else 60
    out = []

    @hseed(seed)
    @settings(max_examples=n * 6, database=None, deadline=None, phases=[Phase.generate], verbosity=Verbosity.quiet,
              suppress_health_check=list(HealthCheck))
    @given(_dir())
    def t(d):
        if len(out) < n and d not in out and (len(d["files"]) >= 2 or len(out) >= n - 1):
            out.append(d)
    t()
    decos = {d["deco"] for d in out}
    # make sure the decorated kinds are represented
    needed = ["names", "cap", "zipparent", "abstract-linksyntax"]
    for deco in needed:
        have = [d["deco"] for d in out]
        if deco in have:
            continue
        # give it to a directory whose own flavour is not needed or is present twice
        for j, h in enumerate(have):
            if h not in needed or have.count(h) > 1:
                out[j] = dict(out[j], deco=deco)
                break
    # and both kinds of place: the root, and a sub-directory with a '%' in its name
    if out and not any("%" in d.get("where", "") for d in out):
        out[-1] = dict(out[-1], where=["50%", "rate%d", "100% juice"][seed % 3])
    if len(out) > 1 and not any(d.get("where", "") == "" for d in out):
        out[0] = dict(out[0], where="")
    _dirs_cache[key] = out
    return out


def enumerate_cases(tier, seed):
    for d in _draw_dirs(tier, seed):
        for k in range(SHARDS_PER_DIR):
            yield {"dir": d, "k": k, "of": SHARDS_PER_DIR}


def _spec(d):
    spec = []
    names = []
    for name, kind in d["files"]:
        if kind == "d":
            spec.append([name, "d", None])
            spec.append([name + "/in.txt", "f", "x\n"])
            names.append(name)
        elif kind == "h":
            spec.append([name + ".html", "f", "<html><title>%s</title></html>\n" % d["title"]])
            names.append(name + ".html")
        else:
            spec.append([name, "f", "content of a file\n"])
            names.append(name)
    if d["deco"] == "names":
        spec.append([".names", "f", "Path=./%s\nName=Renamed %s\nNumb=1\n\nName=Elsewhere\nType=1\nPath=/x\nHost=other.example\nPort=70\n" % (names[0], d["title"])])
    elif d["deco"] == "cap":
        spec.append([".cap/" + names[0], "f", "Name=Capped %s\nAbstract=first\\\nsecond\n" % d["title"]])
    elif d["deco"] == "abstract":
        spec.append([names[0] + ".abstract" if d["files"][0][1] != "d" else names[0] + "/.abstract", "f", "about it\nmore\n"])
    elif d["deco"] == "abstract-linksyntax":
        # an abstract that documents link files: its text (stored verbatim in the cache file) has link-file syntax
        spec.append([names[0] + ".abstract" if d["files"][0][1] != "d" else names[0] + "/.abstract", "f",
                     "How to write a .names file:\n\nName=Our mirror in Minnesota\nType=1\nPath=/pub\nHost=mirror.example\nPort=70\n\n"
                     "Type=X\nPath=./%s\n\nType=\n" % names[-1]])
    elif d["deco"] == "zipparent":
        spec.append(["arch.zip", "zip", {"members": [["m.txt", "f", "member\n", {}], ["sub/n.txt", "f", "n\n", {}]]}])
    return spec


_WHERE = [""]  # the listed directory, relative to the document root ('' = the root itself); set per case


def _listing(cfg, form, sel=b"/"):
    """listing of the case's directory (sel '/') or of something in it"""
    if _WHERE[0]:
        sel = b"/" + world.b(_WHERE[0]) + (sel if sel != b"/" else b"")
    r = drive.serve(cfg, clients.encode(form, sel), tls=clients.FORMS[form][0])
    return r


def check_case(case, ctx):
    d = case["dir"]
    k, of = case["k"], case["of"]
    full = d["deco"] == "zipparent"
    where = d.get("where", "")
    _WHERE[0] = where
    base, site_root = world.build([[(where + "/" if where else "") + e[0]] + list(e[1:]) for e in _spec(d)])
    root = os.fsdecode(os.fsencode(site_root) + b"/" + world.b(where)) if where else site_root  # the listed directory
    fails = []
    try:
        over = {"handlers.dir.DirHandler::cachetime": "100000"}
        cfg = drive.make_config(site_root, "full" if full else "shipped", **over)
        ref_cfg = drive.make_config(site_root, "full" if full else "shipped",
                                    **{"handlers.dir.DirHandler::cachetime": "0",
                                       "handlers.dir.DirHandler::cachefile": ".cache.pygopherd.ref"})
        forms = ["gopher", "http", "gdollar", "gemini"]
        sels = [b"/"] + ([b"/arch.zip"] if full else [])
        ref = {}
        for sel in sels:
            for f in forms:
                ref[(sel, f)] = _mask(_listing(ref_cfg, f, sel).response)
        # first requests write the caches
        for sel in sels:
            r0 = _listing(cfg, "gopher", sel)
            if _mask(r0.response) != ref[(sel, "gopher")]:
                return [Fail("first-listing-differs", "first (cache-writing) listing of %r differs from the uncached reference" % sel)]
        caches = sorted(n for n in os.listdir(root) if n.startswith(".cache.pygopherd") and not n.endswith(".ref"))
        if ".cache.pygopherd.dir" not in caches:
            return [Fail("no-cache-file", "no cache file was written for the directory: %r" % caches)]
        if k == 0:
            # write gate: record the states a concurrent reader could observe, check they are prefixes
            states = _observe_writer(cfg, root)
            ctx.count("writer_states_observed", len(states))
            final = states[-1] if states else b""
            for s_ in states:
                if not final.startswith(s_):
                    fails.append(Fail("writer-state-not-a-prefix", "a concurrent reader could see cache bytes that are not a prefix of the final file"))
                    break
            ctx.count("traces_validated_against_impl", 1)
        for cname in caches:
            path = os.path.join(root, cname)
            with open(path, "rb") as f:
                orig = f.read()
            size = len(orig)
            sel = b"/" if cname == ".cache.pygopherd.dir" else b"/arch.zip"
            points = list(range(k, size + 1, of))
            if k == 0:
                points.append(-1)  # zero-filled file of full length
            for p in points:
                data = b"\0" * size if p == -1 else orig[:p]
                form = forms[(p if p >= 0 else 0) % len(forms)]
                with open(path, "wb") as f:
                    f.write(data)
                # the stamp of the cut-off file: just written, or written by a machine whose clock runs ahead (a file
                # server's, or ours before it was set back), or a while ago - inside the lifetime all the same
                stamp = (0, 90, -50000, 3600)[(max(p, 0) // of) % 4]
                if stamp:
                    now = time.time()
                    os.utime(path, (now + stamp, now + stamp))
                    ctx.label("stamp:%+d" % stamp)
                r = _listing(cfg, form, sel)
                ctx.count("prefixes_tried")
                ctx.evaluations += 1
                if 0 < p < size:
                    ctx.nontriv((d, cname, p))
                if _mask(r.response) != ref[(sel, form)] or r.escaped is not None:
                    kind = "zero-filled" if p == -1 else ("empty" if p == 0 else ("full" if p == size else "strict-prefix"))
                    what = (r.handled_signatures() or ["wrong-listing"])[-1] if not r.escaped else drive.exc_signature(r.escaped)
                    fails.append(Fail("cut-cache:%s:%s:%s" % (cname.replace(".cache.pygopherd.", "")[:12], kind, what),
                                      "cache file %s cut to %s of %d bytes: %s listing of %r is not the complete correct listing: %r" % (
                                          cname, "zeros" if p == -1 else p, size, form, sel, r.response[:100]),
                                      {"logs": r.logs[-2:], "expected": world.u(ref[(sel, form)][:300])}))
                    if len(fails) > 3:
                        return _dedup(fails)
                # restore the complete file for the next point
                with open(path, "wb") as f:
                    f.write(orig)
        if k == 1:
            fails += _second_actor(cfg, root, ref, forms, ctx, d)
        if k == 2:
            fails += _rewrite_race(cfg, ref_cfg, root, forms, ctx, d)
        if k == 3:
            fails += _killed_writer(cfg, root, ref, forms, ctx, d)
        if k == 4:
            fails += _cut_while_decoding(cfg, root, ref, forms, ctx, d)
        if k == 5:
            fails += _full_disk(cfg, root, ref, forms, ctx, d)
        ctx.label("deco:" + d["deco"], "cachefiles:%d" % len(caches), "listed:%s" % ("root" if not where else "subdirectory"))
        if k == 0:
            ctx.sample({"dir": d, "cache_files": caches}, cls=d["deco"])
        return _dedup(fails)
    finally:
        world.rmtree(base)


import re  # noqa: E402

_MASKS = [(re.compile(rb"Last-Modified: [^\r\n]*\r\n"), b"Last-Modified: X\r\n"),
          (re.compile(rb" Mod-Date: [^\r\n]*\r\n"), b" Mod-Date: X\r\n")]


def _mask(b):
    for rx, rep in _MASKS:
        b = rx.sub(rep, b)
    return b


def _dedup(fails):
    seen, out = set(), []
    for f in fails:
        if f.sig not in seen:
            seen.add(f.sig)
            out.append(f)
    return out


def _second_actor(cfg, root, ref, forms, ctx, d):
    """A second request working on the same cut-off file: between any two of the reader's file-system calls that touch
    the cache file, the other one may have removed it (its own recovery) or completed it (its own rewrite).  The
    harness owns the schedule: before the reader's j-th VFS call on the cache file the action is applied."""
    import pygopherd.handlers.base as hbase
    path = os.path.join(root, ".cache.pygopherd.dir")
    with open(path, "rb") as f:
        orig = f.read()
    size = len(orig)
    methods = ["iswritable", "unlink", "stat", "isdir", "isfile", "exists", "open"]
    saved = {m: getattr(hbase.VFS_Real, m) for m in methods}
    state = {"n": 0, "at": None, "action": None, "p": 0}

    def act():
        if state["action"] == "remove":
            try:
                os.unlink(path)
            except OSError:
                pass
        elif state["action"] == "truncate":
            # the other request is a writer that has just opened the file for writing
            with open(path, "wb"):
                pass
        elif state["action"] == "shrink":
            # ... or one whose rewrite is shorter so far than what the reader saw
            with open(path, "wb") as f:
                f.write(orig[:state["p"] // 2])
        elif state["action"] == "grow":
            # the other request is a writer that gets a little further and then stops (killed, disk full, stalled)
            with open(path, "wb") as f:
                f.write(orig[:min(size - 1, state["p"] + max(1, (size - state["p"]) // 2))])
        else:
            with open(path, "wb") as f:
                f.write(orig)

    def wrap(m):
        o = saved[m]

        def w(self, selector, *a, **kw):
            if isinstance(selector, str) and selector.endswith(".cache.pygopherd.dir"):
                if state["n"] == state["at"]:
                    act()
                state["n"] += 1
            return o(self, selector, *a, **kw)
        return w
    fails = []
    for m in methods:
        setattr(hbase.VFS_Real, m, wrap(m))
    try:
        for p in sorted({0, 1, size // 2, size - 1, size}):
            if p < 0 or p > size:
                continue
            # dry run: how many calls touch the cache file when nothing interferes
            with open(path, "wb") as f:
                f.write(orig[:p])
            state.update(n=0, at=None)
            _listing(cfg, "gopher")
            ncalls = state["n"]
            state["p"] = p
            for action in (("remove", "complete", "grow", "truncate", "shrink") if p < size else ("truncate", "shrink", "remove")):
                for j in range(ncalls + 3):
                    with open(path, "wb") as f:
                        f.write(orig[:p])
                    state.update(n=0, at=j, action=action)
                    form = forms[j % len(forms)]
                    r = _listing(cfg, form)
                    ctx.count("second_actor_schedules")
                    ctx.evaluations += 1
                    ctx.nontriv((d, "second-actor", p, action, j))
                    if _mask(r.response) != ref[(b"/", form)] or r.escaped is not None:
                        what = (r.handled_signatures() or ["wrong-listing"])[-1] if not r.escaped else drive.exc_signature(r.escaped)
                        fails.append(Fail("second-actor:%s:%s" % (action, what),
                                          "cache cut to %d of %d bytes and a second request %ss the file before the reader's "
                                          "file-system call %d of %d on it: %s listing is not the complete correct listing: %r" % (
                                              p, size, action, j, ncalls, form, r.response[:100]), {"logs": r.logs[-2:]}))
                        break
    finally:
        for m in methods:
            setattr(hbase.VFS_Real, m, saved[m])
        with open(path, "wb") as f:
            f.write(orig)
    return fails


def _killed_writer(cfg, root, ref, forms, ctx, d):
    """A writer that is really killed: the cache-writing request runs in a forked child that dies (os._exit) inside the
    serialisation, after `cut` bytes have gone to whatever file the writer writes to.  Whatever the dead writer leaves in
    the directory, the next request must show the directory as it is (compared with the listing taken before)."""
    import pickle
    import pygopherd.handlers.dir as hdir
    path = os.path.join(root, ".cache.pygopherd.dir")
    with open(path, "rb") as f:
        size = len(f.read())
    pristine = set(os.listdir(root))
    fails = []
    for i, cut in enumerate(sorted({0, 1, size // 2, max(0, size - 1)})):
        try:
            os.unlink(path)
        except OSError:
            pass
        pid = os.fork()
        if pid == 0:
            try:
                class _DyingPickle:
                    def __getattr__(self, n):
                        return getattr(pickle, n)

                    @staticmethod
                    def dump(obj, fp, *a, **kw):
                        data = pickle.dumps(obj, *a, **kw)
                        fp.write(data[:cut])
                        fp.flush()
                        os._exit(0)
                hdir.pickle = _DyingPickle()
                _listing(cfg, "gopher")
            finally:
                os._exit(0)
        os.waitpid(pid, 0)
        left = sorted(set(os.listdir(root)) - pristine)
        form = forms[i % len(forms)]
        r = _listing(cfg, form)
        ctx.count("killed_writer_points")
        ctx.evaluations += 1
        ctx.nontriv((d, "killed-writer", cut))
        if _mask(r.response) != ref[(b"/", form)] or r.escaped is not None:
            what = (r.handled_signatures() or ["wrong-listing"])[-1] if not r.escaped else drive.exc_signature(r.escaped)
            fails.append(Fail("killed-writer:%s" % what,
                              "the cache writer was killed after %d of %d bytes (it left %r in the directory): the next %s listing "
                              "is not the directory's listing: %r" % (cut, size, left, form, r.response[:120]), {"logs": r.logs[-2:]}))
        for n in set(os.listdir(root)) - pristine:
            try:
                os.unlink(os.path.join(root, n))
            except OSError:
                pass
        if fails:
            break
    _listing(cfg, "gopher")  # leave a complete cache file behind
    return fails


def _full_disk(cfg, root, ref, forms, ctx, d):
    """A disk that is full: in a forked child no file may grow beyond `limit` bytes (RLIMIT_FSIZE, the error delivered as
    EFBIG).  The request that writes the cache is cut off there - and so is the rewrite attempted by the next request, which
    finds the cut-off file.  Both must deliver the directory's listing."""
    import pickle
    import resource
    import signal
    path = os.path.join(root, ".cache.pygopherd.dir")
    with open(path, "rb") as f:
        size = len(f.read())
    fails = []
    for i, limit in enumerate(sorted({0, 1, size // 2, max(0, size - 4097), max(0, size - 100), max(0, size - 1)})):
        try:
            os.unlink(path)
        except OSError:
            pass
        form = forms[i % len(forms)]
        rd, wr = os.pipe()
        pid = os.fork()
        if pid == 0:
            try:
                os.close(rd)
                signal.signal(signal.SIGXFSZ, signal.SIG_IGN)
                resource.setrlimit(resource.RLIMIT_FSIZE, (limit, limit))
                out = []
                for _ in range(2):
                    r = _listing(cfg, form)
                    out.append((r.response, repr(r.escaped) if r.escaped is not None else None, r.logs[-2:]))
                blob = pickle.dumps(out)
                while blob:
                    blob = blob[os.write(wr, blob):]
            finally:
                os._exit(0)
        os.close(wr)
        chunks = []
        while True:
            b_ = os.read(rd, 65536)
            if not b_:
                break
            chunks.append(b_)
        os.close(rd)
        os.waitpid(pid, 0)
        ctx.count("full_disk_points")
        ctx.evaluations += 1
        ctx.nontriv((d, "full-disk", limit))
        try:
            out = pickle.loads(b"".join(chunks))
        except Exception:
            fails.append(Fail("full-disk:no-result", "with files limited to %d bytes the requests delivered nothing" % limit))
            break
        for j, (resp, esc, logs) in enumerate(out):
            if _mask(resp) != ref[(b"/", form)] or esc is not None:
                fails.append(Fail("full-disk:%s" % ("escaped" if esc else "wrong-listing"),
                                  "no file can grow beyond %d bytes (the cache would be %d): the %s %s request does not deliver the "
                                  "directory's listing: %r %r" % (limit, size, "cache-writing" if j == 0 else "next", form, resp[:120], esc),
                                  {"logs": logs}))
                break
        if fails:
            break
    try:
        os.unlink(path)
    except OSError:
        pass
    _listing(cfg, "gopher")  # leave a complete cache file behind
    return fails


def _cut_while_decoding(cfg, root, ref, forms, ctx, d):
    """A reader that is in the middle of decoding the cache file when a writer truncates it (and gets as far as `cut`
    bytes): the reader request runs in a forked child whose audit hook performs the writer's truncation at the first class
    look-up of the decoder after the cache file was opened for reading.  The child must live and deliver the directory's
    listing (a reader that maps the file instead of reading it is killed by SIGBUS at this point)."""
    import pickle
    import sys
    path = os.path.join(root, ".cache.pygopherd.dir")
    with open(path, "rb") as f:
        orig = f.read()
    fails = []
    for i, cut in enumerate(sorted({0, 1, len(orig) // 2})):
        with open(path, "wb") as f:
            f.write(orig)
        form = forms[i % len(forms)]
        rd, wr = os.pipe()
        pid = os.fork()
        if pid == 0:
            try:
                os.close(rd)
                state = {"armed": False, "fired": False}

                def hook(ev, args):
                    if state["fired"]:
                        return
                    if ev == "open":
                        try:
                            name = os.fsdecode(args[0]) if isinstance(args[0], (bytes, str)) else ""
                        except Exception:
                            name = ""
                        if name.endswith("/.cache.pygopherd.dir") and "r" in str(args[1] or "r"):
                            state["armed"] = True
                    elif ev == "pickle.find_class" and state["armed"]:
                        state["fired"] = True
                        fd = os.open(path, os.O_WRONLY | os.O_TRUNC)
                        os.write(fd, orig[:cut])
                        os.close(fd)
                sys.addaudithook(hook)
                r = _listing(cfg, form)
                blob = pickle.dumps((state["fired"], r.response, repr(r.escaped) if r.escaped is not None else None))
                while blob:
                    blob = blob[os.write(wr, blob):]
            finally:
                os._exit(0)
        os.close(wr)
        chunks = []
        while True:
            b_ = os.read(rd, 65536)
            if not b_:
                break
            chunks.append(b_)
        os.close(rd)
        _, status = os.waitpid(pid, 0)
        ctx.count("cut_while_decoding_points")
        ctx.evaluations += 1
        if os.WIFSIGNALED(status):
            import signal
            fails.append(Fail("reader-killed:%s" % signal.Signals(os.WTERMSIG(status)).name,
                              "the cache file was truncated to %d of %d bytes while a %s request was decoding it: the process "
                              "handling the request was killed by %s" % (cut, len(orig), form, signal.Signals(os.WTERMSIG(status)).name)))
            break
        try:
            fired, resp, esc = pickle.loads(b"".join(chunks))
        except Exception:
            fails.append(Fail("reader-gave-nothing", "the cache file was truncated to %d of %d bytes while a %s request was decoding "
                                                     "it: the request delivered nothing" % (cut, len(orig), form)))
            break
        if fired:
            ctx.nontriv((d, "cut-while-decoding", cut))
            ctx.label("cut-while-decoding:reached")
        if _mask(resp) != ref[(b"/", form)] or esc is not None:
            fails.append(Fail("cut-while-decoding:%s" % ("escaped" if esc else "wrong-listing"),
                              "the cache file was truncated to %d of %d bytes while a %s request was decoding it: the reply is not "
                              "the directory's listing: %r %r" % (cut, len(orig), form, resp[:120], esc)))
            break
    try:
        os.unlink(path)
    except OSError:
        pass
    _listing(cfg, "gopher")  # leave a complete cache file behind
    return fails


def _rewrite_race(cfg, ref_cfg, root, forms, ctx, d):
    """A complete but EXPIRED cache file exists, the directory has changed in a way that keeps the layout of the file
    (a file renamed to a name of the same length), and a writer rewrites the cache: every state of the file a reader can
    observe meanwhile is replayed as that reader's request, which must show the CURRENT directory."""
    path = os.path.join(root, ".cache.pygopherd.dir")
    if not os.path.exists(path):
        return []
    victims = sorted(n for n in os.listdir(root) if not n.startswith(".") and os.path.isfile(os.path.join(root, n)))
    if not victims:
        return []
    old = victims[0]
    new = ("q" if old[0] != "q" else "r") + old[1:]
    if os.path.lexists(os.path.join(root, new)):
        return []
    os.rename(os.path.join(root, old), os.path.join(root, new))
    for side in os.listdir(root):
        if side.startswith(old + ".") and not os.path.lexists(os.path.join(root, new + side[len(old):])):
            os.rename(os.path.join(root, side), os.path.join(root, new + side[len(old):]))
    st_ = os.stat(path)
    os.utime(path, (st_.st_atime - 200000, st_.st_mtime - 200000))  # older than the lifetime (100000 s)
    with open(path, "rb") as f:
        expired = f.read()
    pristine = set(os.listdir(root))
    states = _observe_writer(cfg, root, keep_old=True)
    ref = {f: _mask(_listing(ref_cfg, f).response) for f in forms}
    fails = []
    # the rewriter is really killed (forked child dying inside the serialisation): whatever it leaves in the directory next to
    # the cut-off file - e.g. the previous generation it had set aside -, the next request shows the CURRENT directory
    import pickle
    import pygopherd.handlers.dir as hdir
    for i, cut in enumerate(sorted({0, 1, len(expired) // 2})):
        for n in set(os.listdir(root)) - pristine:
            os.unlink(os.path.join(root, n))
        with open(path, "wb") as f:
            f.write(expired)
        os.utime(path, (st_.st_atime - 200000, st_.st_mtime - 200000))
        pid = os.fork()
        if pid == 0:
            try:
                class _DyingPickle:
                    def __getattr__(self, n):
                        return getattr(pickle, n)

                    @staticmethod
                    def dump(obj, fp, *a, **kw):
                        fp.write(pickle.dumps(obj, *a, **kw)[:cut])
                        fp.flush()
                        os._exit(0)
                hdir.pickle = _DyingPickle()
                _listing(cfg, "gopher")
            finally:
                os._exit(0)
        os.waitpid(pid, 0)
        left = sorted(set(os.listdir(root)) - pristine)
        form = forms[i % len(forms)]
        r = _listing(cfg, form)
        ctx.count("killed_rewriter_points")
        ctx.evaluations += 1
        ctx.nontriv((d, "killed-rewriter", cut))
        if _mask(r.response) != ref[form] or r.escaped is not None:
            what = (r.handled_signatures() or ["wrong-listing"])[-1] if not r.escaped else drive.exc_signature(r.escaped)
            fails.append(Fail("killed-rewriter:%s" % what,
                              "an expired cache was being rewritten after %r was renamed to %r and the writer was killed after %d bytes (it "
                              "left %r in the directory): the next %s listing is not the current directory: %r" % (
                                  old, new, cut, left, form, r.response[:120]), {"logs": r.logs[-2:]}))
            return fails
    for n in set(os.listdir(root)) - pristine:
        os.unlink(os.path.join(root, n))
    seen = set()
    for i, s_ in enumerate(states):
        if s_ in seen:
            continue
        seen.add(s_)
        with open(path, "wb") as f:
            f.write(s_)
        form = forms[i % len(forms)]
        r = _listing(cfg, form)
        ctx.count("rewrite_race_states")
        ctx.evaluations += 1
        ctx.nontriv((d, "rewrite-race", i))
        if _mask(r.response) != ref[form] or r.escaped is not None:
            what = (r.handled_signatures() or ["wrong-listing"])[-1] if not r.escaped else drive.exc_signature(r.escaped)
            fails.append(Fail("rewrite-race:%s" % what,
                              "an expired cache is being rewritten after %r was renamed to %r; a reader that finds the file as it "
                              "is after the writer's step %d of %d (%d bytes) gets a listing that is not the current directory: %r" % (
                                  old, new, i, len(states), len(s_), r.response[:120]), {"logs": r.logs[-2:]}))
            break
    return fails


def _observe_writer(cfg, root, keep_old=False):
    """Run one cache-writing request with the cache file's writer wrapped: after the open (truncation) and after every
    write call the on-disk bytes are recorded - exactly what a concurrently running reader could find."""
    import pygopherd.handlers.base as hbase
    path = os.path.join(root, ".cache.pygopherd.dir")
    if not keep_old:
        os.unlink(path)
    states = []
    orig_open = hbase.VFS_Real.open

    def snap():
        try:
            with open(path, "rb") as f:
                states.append(f.read())
        except OSError:
            states.append(None)

    class Gate:
        def __init__(self, fp):
            self.fp = fp

        def write(self, b):
            n = self.fp.write(b)
            self.fp.flush()
            snap()
            return n

        def __enter__(self):
            return self

        def __exit__(self, *a):
            self.fp.close()
            snap()

        def __getattr__(self, n):
            return getattr(self.fp, n)

    def gated(self, selector, mode, errors=None):
        fp = orig_open(self, selector, mode, errors=errors)
        if ("w" in mode or "+" in mode or "a" in mode) and selector.endswith(".cache.pygopherd.dir"):
            snap()
            return Gate(fp)
        return fp
    hbase.VFS_Real.open = gated
    try:
        _listing(cfg, "gopher")
    finally:
        hbase.VFS_Real.open = orig_open
    return [s for s in states if s is not None]
