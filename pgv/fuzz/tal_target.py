"""atheris (libFuzzer) target: coverage-guided search over template TEXT for a compiled program that violates the
structural invariant of C17 (scopes nest, every jump target is the end of the owning element), or a TAL-free document
whose expansion is not idempotent (C18).  Run by pgv/props/c17.py in the thorough tier:
    python -m pgv.fuzz.tal_target -runs=N -seed=S -max_len=400 -artifact_prefix=DIR/ CORPUSDIR
A finding is a raised exception -> libFuzzer writes DIR/crash-<hash>; the saved input is the reproducible unit.
"""
import io
import os
import sys
import warnings

warnings.filterwarnings("ignore")
HERE = os.path.dirname(os.path.dirname(os.path.dirname(os.path.abspath(__file__))))
sys.path[:0] = [HERE, os.path.join(HERE, ".deps")]
try:
    import atheris  # noqa: E402
except ImportError:  # replaying a saved input needs no fuzzer
    atheris = None

REPO = os.environ.get("PGV_REPO", "/repo")
sys.path.insert(0, REPO)
if atheris is not None and __name__ == "__main__":
    with atheris.instrument_imports(include=["simpletal"]):
        from simpletal import simpleTAL, simpleTALES  # noqa: E402  (instrumented before anything else imports it)
else:
    from simpletal import simpleTAL, simpleTALES  # noqa: E402

from pgv import drive  # noqa: E402,F401

from pgv.props import c17  # noqa: E402
import logging  # noqa: E402

logging.disable(logging.CRITICAL)


class StructureViolation(Exception):
    pass


VOID = {"area", "base", "basefont", "br", "col", "frame", "hr", "img", "input", "isindex", "link", "meta", "param"}


def balanced(text):
    """the statement is about templates from a grammar: every non-void start tag has its end tag, properly nested,
    and the text ends outside any tag / comment (html.parser is the trusted tokenizer)"""
    from pgv import talgen
    stack = []
    try:
        toks = talgen.tokenise(text)
    except Exception:
        return False
    for t in toks:
        if t[0] == "s" and t[1] not in VOID:
            stack.append(t[1])
        elif t[0] == "e":
            if t[1] in VOID:
                continue
            if not stack or stack[-1] != t[1]:
                return False
            stack.pop()
    if stack:
        return False
    # unterminated constructs at EOF are swallowed as text by html.parser: require that no text node holds '<'
    return not any(t[0] == "d" and "<" in t[1] for t in toks)


def check_text(text):
    """returns list of problems (strings); shared with the replay path in c17"""
    if not balanced(text):
        return []
    try:
        tpl = simpleTAL.compileHTMLTemplate(text)
    except Exception:
        return []  # rejected templates are outside the statement ("every COMPILED program ...")
    probs = c17.program_problems(tpl)
    if probs:
        return ["structure: " + probs[0]]
    if "tal:" not in text and "metal:" not in text and "xmlns" not in text:
        try:
            out = io.StringIO()
            tpl.expand(simpleTALES.Context(), out)
            once = out.getvalue()
            out2 = io.StringIO()
            simpleTAL.compileHTMLTemplate(once).expand(simpleTALES.Context(), out2)
        except Exception:
            return []
        if out2.getvalue() != once:
            # only well-formed documents are in the statement: require that html.parser sees no stray '<' text
            if "<" not in _text_nodes(once):
                return ["idempotence: %r -> %r" % (once[:80], out2.getvalue()[:80])]
    return []


def _text_nodes(s):
    from pgv import talgen
    return "".join(t[1] for t in talgen.tokenise(s) if t[0] == "d")


def TestOneInput(data):
    try:
        text = data.decode("utf-8")
    except UnicodeDecodeError:
        return
    probs = check_text(text)
    if probs:
        raise StructureViolation(probs[0])


if __name__ == "__main__":
    atheris.Setup(sys.argv, TestOneInput)
    atheris.Fuzz()
