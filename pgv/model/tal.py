"""Reference TAL / TALES / METAL interpreter over a template AST (tree walking, no byte code).

Written from the TAL 1.4, TALES 1.5 and METAL 1.1 specifications plus simpleTAL's documented notes; shares no code
with /repo/simpletal.  It produces a token stream (not text), which is compared with the tokenised real output.

AST (plain JSON-able data):
  text    : {"t": "text", "s": str}                       (s = character data, not escaped)
  element : {"t": "el", "tag": str, "attrs": [[name, value], ...], "tal": {cmd: arg}, "metal": {cmd: arg},
             "kids": [...], "void": bool}
  tal keys: define, condition, repeat, content, replace, attributes, omit-tag      (arg = attribute text)
Context values: str, int, None, list, dict, and {"__call__": value} standing for a zero-argument callable.
"""
from __future__ import annotations

import html

DEFAULT = object()


class Missing(Exception):
    pass


class Callable_:
    def __init__(self, value):
        self.value = value


def realise(v):
    """JSON context description -> model values"""
    if isinstance(v, dict):
        if set(v) == {"__call__"}:
            return Callable_(realise(v["__call__"]))
        return {k: realise(x) for k, x in v.items()}
    if isinstance(v, list):
        return [realise(x) for x in v]
    return v


class RepeatVar:
    def __init__(self, seq):
        self.seq = seq
        self.pos = 0

    def get(self, name):
        p, n = self.pos, len(self.seq)
        if name == "index":
            return p
        if name == "number":
            return p + 1
        if name == "even":
            return 1 if p % 2 == 0 else 0      # TAL 1.4: even = index is even (0-based)
        if name == "odd":
            return 1 if p % 2 == 1 else 0
        if name == "start":
            return 1 if p == 0 else 0
        if name == "end":
            return 1 if p == n - 1 else 0
        if name == "length":
            return n
        if name == "letter":
            return "abcdefghijklmnopqrstuvwxyz"[p]  # generator keeps sequences below 26 items
        if name == "Letter":
            return "ABCDEFGHIJKLMNOPQRSTUVWXYZ"[p]
        if name in ("roman", "Roman"):
            out, num = "", p + 1
            for r, v in (("m", 1000), ("cm", 900), ("d", 500), ("cd", 400), ("c", 100), ("xc", 90), ("l", 50), ("xl", 40),
                         ("x", 10), ("ix", 9), ("v", 5), ("iv", 4), ("i", 1)):
                while num >= v:
                    out += r
                    num -= v
            return out if name == "roman" else out.upper()
        raise Missing()


class Env:
    def __init__(self, globals_):
        self.globals = globals_
        self.locals = {}
        self.repeat = {}
        self.attrs = None

    def lookup(self, name):
        if name == "nothing":
            return None
        if name == "default":
            return DEFAULT
        if name == "repeat":
            return self.repeat
        if name == "attrs":
            return self.attrs
        if name in self.locals:
            return self.locals[name]
        if name in self.globals:
            return self.globals[name]
        raise Missing()


def call(v):
    return v.value if isinstance(v, Callable_) else v


def traverse(env, path, can_call=True):
    parts = path.split("/")
    val = env.lookup(parts[0])
    for seg in parts[1:]:
        val = call(val)
        if isinstance(val, RepeatVar):
            val = val.get(seg)
            continue
        if isinstance(val, dict):
            if seg in val:
                val = val[seg]
                continue
            raise Missing()
        if isinstance(val, (list, tuple)):
            try:
                val = val[int(seg)]
                continue
            except (ValueError, IndexError):
                raise Missing()
        raise Missing()
    return call(val) if can_call else val


def truth(v):
    if v is None:
        return False
    if v is DEFAULT:
        return True
    if isinstance(v, (str, list, tuple, dict)):
        return len(v) > 0
    return bool(v)


def evaluate(env, expr):
    """TALES expression -> value; raises Missing if no path exists."""
    expr = expr.strip()
    for prefix in ("path:", "exists:", "nocall:", "not:", "string:"):
        if expr.startswith(prefix):
            rest = expr[len(prefix):].lstrip()
            if prefix == "path:":
                return eval_path(env, rest)
            if prefix == "exists:":
                try:
                    eval_path(env, rest, can_call=False)
                    return 1
                except Missing:
                    return 0
            if prefix == "nocall:":
                return eval_path(env, rest, can_call=False)
            if prefix == "not:":
                try:
                    return 0 if truth(evaluate(env, rest)) else 1
                except Missing:
                    return 1
            if prefix == "string:":
                return eval_string(env, rest)
    return eval_path(env, expr)


def eval_path(env, expr, can_call=True):
    alts = expr.split("|")
    if len(alts) == 1:
        return traverse(env, alts[0].strip(), can_call)
    first = True
    for a in alts:
        try:
            if first and not can_call:
                return traverse(env, a.strip(), False)
            return evaluate(env, a)
        except Missing:
            pass
        first = False
    raise Missing()


def eval_string(env, s):
    out = ""
    i = 0
    while i < len(s):
        c = s[i]
        if c != "$":
            out += c
            i += 1
            continue
        if i + 1 >= len(s):
            i += 1
            continue
        n = s[i + 1]
        if n == "$":
            out += "$"
            i += 2
        elif n == "{":
            j = s.find("}", i + 1)
            if j < 0:
                i += 1  # unterminated: generator does not produce it
                continue
            try:
                v = evaluate(env, s[i + 2:j])
            except Missing:
                v = ""
            if v is not None:
                out += v if isinstance(v, str) else to_text(v)
            i = j + 1
        else:
            j = s.find(" ", i + 1)
            if j < 0:
                j = len(s)
            try:
                v = traverse(env, s[i + 1:j])
            except Missing:
                v = ""
            if v is not None:
                out += v if isinstance(v, str) else to_text(v)
            i = j
    return out


def to_text(v):
    if v is DEFAULT:
        return ""
    if isinstance(v, Callable_):
        return to_text(v.value)
    return str(v)


def top(env, expr):
    """evaluation of a TAL command argument: a missing path counts as nothing"""
    try:
        return evaluate(env, expr)
    except Missing:
        return None


def split_clauses(arg):
    """'a x; b y' with ';;' as an escaped semicolon"""
    out, cur, i = [], "", 0
    while i < len(arg):
        if arg[i] == ";":
            if i + 1 < len(arg) and arg[i + 1] == ";":
                cur += ";"
                i += 2
                continue
            out.append(cur)
            cur = ""
            i += 1
            continue
        cur += arg[i]
        i += 1
    out.append(cur)
    return [c.lstrip() for c in out]


# ------------------------------------------------------------------------------------------------- expansion -> tokens
# tokens: ("s", tag, {attrs}), ("e", tag), ("d", text), ("raw", markup text)


class Expander:
    def __init__(self, globals_, macros=None):
        self.env = Env(globals_)
        self.macros = macros or {}
        self.out = []

    def run(self, nodes):
        for n in nodes:
            self.node(n, {})
        return self.out

    def emit_text(self, s):
        self.out.append(("d", s))

    def node(self, n, slots):
        if n["t"] == "text":
            self.emit_text(n["s"])
            return
        if n["t"] == "raw":
            self.out.append(("raw", n["s"]))
            return
        self.element(n, slots)

    def element(self, n, slots):
        env = self.env
        tal = n.get("tal", {})
        metal = n.get("metal", {})
        tag = n["tag"]
        ns_elem = tag.startswith("tal:") or tag.startswith("metal:")
        static_attrs = [(k, v) for k, v in n["attrs"]]
        orig = {k: v for k, v in n["attrs"]}
        for k, v in tal.items():
            orig[("" if ns_elem and tag.startswith("tal:") else "tal:") + k] = v
        for k, v in metal.items():
            orig["metal:" + k] = v
        # METAL first
        if "use-macro" in metal:
            saved_attrs = env.attrs
            env.attrs = orig
            try:
                m = top(env, metal["use-macro"])
            finally:
                env.attrs = saved_attrs
            if m is None:
                return
            if isinstance(m, dict) and m.get("__macro__"):
                fills = {}
                self.collect_fills(n["kids"], fills)
                self.element(m["node"], fills)
                return
            # default / not a macro: fall through as a normal element
        if "define-slot" in metal and metal["define-slot"] in slots:
            self.element(dict(slots[metal["define-slot"]], _filled=True), {})
            return
        saved_locals = env.locals
        saved_attrs = env.attrs
        env.attrs = orig
        try:
            if "define" in tal:
                pushed = False
                for clause in split_clauses(tal["define"]):
                    bits = clause.split(" ")
                    scope = "local"
                    if len(bits) > 2 and bits[0] in ("local", "global"):
                        scope, name, ex = bits[0], bits[1], " ".join(bits[2:])
                    else:
                        name, ex = bits[0], " ".join(bits[1:])
                    val = top(env, ex)
                    if scope == "global":
                        env.globals[name] = val
                    else:
                        if not pushed:
                            env.locals = dict(env.locals)
                            pushed = True
                        env.locals[name] = val
            if "condition" in tal:
                if not truth(top(env, tal["condition"])):
                    return
            if "repeat" in tal:
                name, ex = tal["repeat"].split(" ", 1)
                seq = top(env, ex)
                if seq is DEFAULT:
                    self.body(n, tag, static_attrs, tal, ns_elem, slots)
                    return
                if isinstance(seq, Callable_):
                    seq = seq.value
                if not isinstance(seq, (list, tuple)) or len(seq) == 0:
                    return
                rv = RepeatVar(list(seq))
                outer_locals, outer_repeat = env.locals, env.repeat
                env.repeat = dict(env.repeat)
                env.repeat[name] = rv
                env.locals = dict(env.locals)
                try:
                    for i, item in enumerate(rv.seq):
                        rv.pos = i
                        env.locals[name] = item
                        self.body(n, tag, static_attrs, tal, ns_elem, slots)
                finally:
                    env.locals, env.repeat = outer_locals, outer_repeat
                return
            self.body(n, tag, static_attrs, tal, ns_elem, slots)
        finally:
            env.locals = saved_locals
            env.attrs = saved_attrs

    def collect_fills(self, kids, fills):
        for k in kids:
            if k["t"] == "el":
                fs = k.get("metal", {}).get("fill-slot")
                if fs is not None:
                    fills.setdefault(fs, k)
                else:
                    self.collect_fills(k["kids"], fills)

    def body(self, n, tag, static_attrs, tal, ns_elem, slots):
        env = self.env
        show_tag = True
        content = DEFAULT  # DEFAULT = original children
        structure = False
        if "replace" in tal or "content" in tal:
            key = "replace" if "replace" in tal else "content"
            arg = tal[key]
            bits = arg.split(" ")
            if len(bits) > 1 and bits[0] in ("structure", "text"):
                structure = bits[0] == "structure"
                arg = " ".join(bits[1:])
            val = top(env, arg)
            if val is None:
                if key == "replace":
                    return
                content = None
            elif val is DEFAULT:
                pass
            else:
                content = val
                if key == "replace":
                    show_tag = False
        attrs = list(static_attrs)
        if "attributes" in tal:
            new = []
            remove = set()
            for clause in split_clauses(tal["attributes"]):
                name, ex = clause.split(" ", 1)
                val = top(env, ex)
                if val is None:
                    remove.add(name)
                elif val is DEFAULT:
                    pass
                else:
                    remove.add(name)
                    new.append((name, to_text(val)))
            attrs = new + [(k, v) for k, v in attrs if k not in remove]
        if ns_elem:
            show_tag = False
        elif "omit-tag" in tal and show_tag:
            arg = tal["omit-tag"]
            if arg.strip() == "":
                show_tag = False
            else:
                v = top(env, arg)
                if v is not None and truth(v) or v is DEFAULT:
                    show_tag = False
        if show_tag:
            self.out.append(("s", tag, dict(attrs)))
        if content is DEFAULT:
            if not n.get("void"):
                for k in n["kids"]:
                    self.node(k, slots)
        elif content is None:
            pass
        else:
            if structure and isinstance(content, dict) and content.get("__template__"):
                # a template object in the context: expanded in place, with no slot parameters
                for k in content["nodes"]:
                    self.node(k, {})
            elif structure:
                self.out.append(("raw", to_text(content)))
            else:
                self.emit_text(to_text(content))
        if show_tag and not n.get("void"):
            self.out.append(("e", tag))


# ------------------------------------------------------------------------------------------------- serialisation

def serialise(nodes):
    out = []
    for n in nodes:
        if n["t"] == "text":
            out.append(html.escape(n["s"], quote=False))
        elif n["t"] == "raw":
            out.append(n["s"])
        else:
            tag = n["tag"]
            parts = ["<" + tag]
            ns_elem = tag.startswith("tal:")
            allattrs = list(n["attrs"])
            for k, v in n.get("metal", {}).items():
                allattrs.append(("metal:" + k, v))
            for k, v in n.get("tal", {}).items():
                if k == "omit-tag" and v == "" and n.get("bare_omit"):
                    allattrs.append(("tal:omit-tag", None))
                else:
                    allattrs.append((("" if ns_elem else "tal:") + k, v))
            order = n.get("attr_order")
            if order:
                allattrs = [allattrs[i] for i in order if i < len(allattrs)] + [a for i, a in enumerate(allattrs) if i not in order]
            for k, v in allattrs:
                if v is None:
                    parts.append(" " + k)
                else:
                    parts.append(' %s="%s"' % (k, html.escape(v, quote=True)))
            parts.append(">")
            out.append("".join(parts))
            if not n.get("void"):
                out.append(serialise(n["kids"]))
                out.append("</%s>" % tag)
    return "".join(out)
