"""Reference reading of a directory per the manual (doc/pygopherd.txt: DIR.DIRHANDLER, UMN.UMNDIRHANDLER,
LINKS, OVERRIDING DEFAULTS, HIDING AN ENTRY, ABSTRACTS AND INFO) and the property statements C07/C08.

Shares no code with /repo.  Works on str names in the server's internal form (utf-8 + surrogateescape).
"""
from __future__ import annotations

import posixpath
import re

from pgv.model import mime as mime_model


def visible(names_kinds, dirsel, ignorepatt, umn=True):
    """names_kinds: iterable of (name, isdir).  Returns the names a listing must contain.
    Rule: not matched by re.search(ignorepatt, dirsel + '/' + name); for the UMN handler not a dot-file."""
    base = "" if dirsel == "/" else dirsel
    out = []
    for name, isdir in names_kinds:
        if re.search(ignorepatt, base + "/" + name):
            continue
        if umn and name.startswith("."):
            continue
        out.append(name)
    return out


def gopher_type(config, mimetype):
    mapping = eval(config.get("GopherEntry", "mapping"))
    for rx, t in mapping:
        if re.match(rx, mimetype):
            return t
    return "0"


def strip_extension(config, name, mode):
    """extstrip per the config comment: none | nonencoded | full.  Only a known extension of the file's
    own type is removed (case-sensitive)."""
    if mode == "none":
        return name
    t, enc = mime_model.guess(config, name)
    db = mime_model._get_db(config)
    if enc:
        if mode != "full" or not t:
            return name
        # name = base + inner-ext + enc-ext, or base + shortcut (e.g. .tgz)
        root, ext = posixpath.splitext(name)
        if ext in db.suffix_map:
            return root
        root2, ext2 = posixpath.splitext(root)
        if ext2 and _ext_type(db, ext2) == t:
            return root2
        return name
    if not t:
        return name
    root, ext = posixpath.splitext(name)
    if ext and _ext_type(db, ext) == t:
        return root
    return name


def _ext_type(db, ext):
    for m in (db.types_map[True], db.types_map[False]):
        if ext in m:
            return m[ext]
    return None


# ------------------------------------------------------------------------------------------------------------
# link files

FIELDS = ("Name", "Type", "Path", "Host", "Port", "Numb", "Abstract")


def parse_link_text(text):
    """-> list of blocks; a block is a list of (field, value) in file order.  Blocks are separated by blank
    lines; lines starting with '#' are comments; an Abstract value ending in a backslash continues."""
    blocks = []
    cur = []
    lines = text.split("\n")
    i = 0
    while i < len(lines):
        line = lines[i].strip()
        i += 1
        if line == "":
            if cur:
                blocks.append(cur)
                cur = []
            continue
        if line.startswith("#"):
            continue
        m = re.match(r"^(Name|Type|Path|Host|Port|Numb|Abstract)=(.*)$", line, re.S)
        if not m:
            # unknown line ends the block (manual is silent); the generator does not produce such lines
            if cur:
                blocks.append(cur)
                cur = []
            continue
        f, v = m.group(1), m.group(2)
        if f == "Abstract":
            parts = []
            while v.endswith("\\"):
                parts.append(v[:-1])
                v = lines[i].strip() if i < len(lines) else ""
                i += 1
            parts.append(v)
            v = "\n".join(parts)
        cur.append((f, v))
    if cur:
        blocks.append(cur)
    return blocks


def block_fields(block):
    d = {}
    for f, v in block:
        d[f] = v
    return d


def new_entry():
    return {"type": None, "name": None, "selector": None, "host": None, "port": None, "plus": False,
            "num": None, "abstract": None}


def apply_fields(entry, d, dirbase, override):
    """Set on `entry` exactly the fields the block sets."""
    if "Name" in d:
        entry["name"] = d["Name"]
    if "Type" in d and d["Type"]:
        entry["type"] = d["Type"][0]
    if "Host" in d and d["Host"] != "+":
        entry["host"] = d["Host"]
    if "Port" in d and d["Port"] != "+":
        entry["port"] = int(d["Port"])
    if "Numb" in d:
        try:
            entry["num"] = int(d["Numb"])
        except ValueError:
            pass
    if "Abstract" in d and d["Abstract"]:
        entry["abstract"] = d["Abstract"]
    if not override and "Path" in d:
        p = d["Path"]
        if p.endswith("/"):
            p = p[:-1]
        entry["selector"] = p


def umn_listing(config, dirsel, children, linktexts, caps, extstrip, ignorepatt):
    """children: list of dicts {name, isdir, title (HTML <title> or None), abstract (str or None)}
    linktexts: list of link-file texts (any order);  caps: {name: text}
    Returns (entries, hidden_names).  entries are unordered; use sort_groups() for the order claims."""
    base = "" if dirsel == "/" else dirsel
    entries = []
    by_sel = {}
    hidden = set()
    for ch in children:
        name = ch["name"]
        if name not in visible([(name, ch["isdir"])], dirsel, ignorepatt, umn=True):
            continue
        e = new_entry()
        e["selector"] = base + "/" + name
        e["plus"] = True
        e["name"] = name
        if ch["isdir"]:
            e["type"] = "1"
        else:
            t = mime_model.served_type(config, name)
            e["type"] = gopher_type(config, t)
            if ch.get("title") and extstrip == "none":
                e["name"] = ch["title"]
            elif ch.get("title") and strip_extension(config, name, extstrip) == name:
                e["name"] = ch["title"]
            else:
                _, enc = mime_model.guess(config, name)
                if extstrip == "full" or (extstrip == "nonencoded" and not enc):
                    e["name"] = strip_extension(config, name, extstrip)
                elif ch.get("title"):
                    e["name"] = ch["title"]
        e["abstract"] = ch.get("abstract")
        e["_file"] = name
        capt = caps.get(name)
        if capt is not None:
            blocks = parse_link_text(capt)
            if blocks:
                d = block_fields(blocks[0])
                if d.get("Type", "")[:1] in ("X", "-"):
                    hidden.add(name)
                    continue
                apply_fields(e, d, base, override=True)
        entries.append(e)
        by_sel[e["selector"]] = e
    for text in linktexts:
        for block in parse_link_text(text):
            d = block_fields(block)
            if "Path" not in d:
                continue
            p = d["Path"]
            if p.startswith("./") or p.startswith("~/"):
                pp = p[:-1] if p.endswith("/") else p
                target = base + "/" + pp[2:]
                if target in by_sel:
                    if d.get("Type", "")[:1] in ("X", "-"):
                        e = by_sel.pop(target)
                        entries.remove(e)
                        hidden.add(e["_file"])
                    else:
                        apply_fields(by_sel[target], d, base, override=True)
                    continue
                # override of something not listed: undocumented; generator does not produce it
                e = new_entry()
                apply_fields(e, d, base, override=False)
                e["selector"] = target
                entries.append(e)
                continue
            e = new_entry()
            apply_fields(e, d, base, override=False)
            sel = e["selector"]
            if sel and not sel.startswith("/") and not sel.startswith("URL:") and e["host"] is None and e["port"] is None:
                e["selector"] = posixpath.normpath(base + "/" + sel)
            entries.append(e)
    return entries, hidden


def group_of(e):
    n = e["num"] or 0
    return 0 if n > 0 else (1 if n == 0 else 2)


def order_violations(listed):
    """listed: entries in listing order (dicts with num, name).  Checks the statement's order claim:
    positives (numeric ascending, ties by title), then unnumbered (by title), then negatives.
    Returns list of (i, reason)."""
    bad = []
    for i in range(len(listed) - 1):
        a, b = listed[i], listed[i + 1]
        ga, gb = group_of(a), group_of(b)
        if ga > gb:
            bad.append((i, "group order: %r (Numb=%r) listed before %r (Numb=%r)" % (a["name"], a["num"], b["name"], b["num"])))
        elif ga == gb == 0:
            if a["num"] > b["num"] or (a["num"] == b["num"] and a["name"] > b["name"]):
                bad.append((i, "numbered entries out of order: %r(%r) before %r(%r)" % (a["name"], a["num"], b["name"], b["num"])))
        elif ga == gb == 1:
            if a["name"] > b["name"]:
                bad.append((i, "unnumbered entries not by title: %r before %r" % (a["name"], b["name"])))
    return bad
