"""Reference MIME model: what 'the configured MIME tables assign to the name'.

Trusted base: the stdlib `mimetypes.MimeTypes` class, instantiated privately from the configured files and
the configured encodings (so the global tables pygopherd uses are not consulted).  pygopherd's own rules on
top (populatefromfs docstring): encoding found => application/octet-stream; nothing found => configured
default type.
"""
from __future__ import annotations

import mimetypes
import os

_db = None
_key = None


def _get_db(config):
    global _db, _key
    files = [f for f in config.get("pygopherd", "mimetypes").split(":") if os.path.isfile(f)]
    enc_src = config.get("pygopherd", "encoding")
    key = (tuple(files), enc_src)
    if _key != key:
        # the configured encoding expression refers to the stdlib default encodings + additions
        default_enc = {".gz": "gzip", ".Z": "compress", ".bz2": "bzip2", ".xz": "xz", ".br": "br"}
        ns = {"mimetypes": type("M", (), {"encodings_map": default_enc})}
        enc = dict(eval(enc_src, ns))
        # stdlib semantics of the first mimetypes.init(files): defaults + the system's known files + the given files
        db = mimetypes.MimeTypes()
        for f in list(mimetypes.knownfiles) + list(files):
            if os.path.isfile(f):
                db.read(f)
        db.encodings_map = enc
        _db, _key = db, key
    return _db


def guess(config, name):
    """-> (type or None, encoding or None) for a file name (latin-1 str of raw bytes or real str)"""
    db = _get_db(config)
    return db.guess_type("/" + name, strict=False)


def served_type(config, name, decompress=False):
    """MIME type a document request must advertise for a plain file with this name."""
    t, enc = guess(config, name)
    default = config.get("GopherEntry", "defaultmimetype")
    if enc:
        if decompress:
            return t or default
        return "application/octet-stream"
    return t or default
