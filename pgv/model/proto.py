"""Reference request-shape classifier, written from the documented request shapes:

  HTTP    : `GET|HEAD SP target SP HTTP/x`                      (RFC 1945 request line)
  WAP     : an HTTP request whose target starts with the WAP prefix, or whose Accept header lists
            text/vnd.wap.wml together with an x-wap-profile / x-up-devcap-max-pdu header  (wap.py docstring)
  Gemini  : line starts with gemini://                           (gemini.py)
  Spartan : ASCII `host SP path SP content-length(digits)`       (spartan.py docstring / spec)
  Gopher+ : 2 or 3 TAB fields, last one `!` or starting with `+` or `$`   (gopherp.py docstring)
  Gopher  : anything

Each shape test answers True / False / None, None meaning "the documents do not settle it" (odd
whitespace inside tokens etc.); the expected winner is then a *set* of admissible classes.
All functions work on bytes.
"""
from __future__ import annotations

import itertools
import re

# class name -> (family, secure)
CLASSES = {
    "WAPProtocol": ("wap", False),
    "GeminiProtocol": ("gemini", True),
    "HTTPProtocol": ("http", False),
    "HTTPSProtocol": ("http", True),
    "SpartanProtocol": ("spartan", False),
    "GopherPlusProtocol": ("gplus", False),
    "SecureGopherPlusProtocol": ("gplus", True),
    "GopherProtocol": ("gopher", False),
    "SecureGopherProtocol": ("gopher", True),
    # the two further classes the manual names for the protocols option ("Enhanced Gopher0", Gopher+ with +URL blocks):
    # they claim what the class they extend claims
    "EnhancedGopherProtocol": ("gopher", False),
    "URLGopherPlus": ("gplus", False),
}
SHIPPED_ORDER = ["WAPProtocol", "GeminiProtocol", "HTTPProtocol", "HTTPSProtocol", "SpartanProtocol",
                 "GopherPlusProtocol", "SecureGopherPlusProtocol", "GopherProtocol", "SecureGopherProtocol"]
CONFIG_NAMES = {
    "WAPProtocol": "wap.WAPProtocol", "GeminiProtocol": "gemini.GeminiProtocol",
    "HTTPProtocol": "http.HTTPProtocol", "HTTPSProtocol": "http.HTTPSProtocol",
    "SpartanProtocol": "spartan.SpartanProtocol", "GopherPlusProtocol": "gopherp.GopherPlusProtocol",
    "SecureGopherPlusProtocol": "gopherp.SecureGopherPlusProtocol",
    "GopherProtocol": "rfc1436.GopherProtocol", "SecureGopherProtocol": "rfc1436.SecureGopherProtocol",
    "EnhancedGopherProtocol": "enhanced.EnhancedGopherProtocol", "URLGopherPlus": "gopherp.URLGopherPlus",
}
ALL_CLASSES = SHIPPED_ORDER + ["EnhancedGopherProtocol", "URLGopherPlus"]

_WS = b" \t\n\r\x0b\x0c\x1c\x1d\x1e\x1f\x85\xa0"  # anything some whitespace notion might strip


def _chomp(line):
    if line.endswith(b"\r\n"):
        return line[:-2]
    if line.endswith(b"\n"):
        return line[:-1]
    return line


def _odd_ws(tok):
    """token carries whitespace-like bytes at its ends -> documents silent"""
    return tok != b"" and (tok[:1] in [bytes([c]) for c in _WS] or tok[-1:] in [bytes([c]) for c in _WS])


def _has_utf8_space(b):
    # multi-byte unicode whitespace (U+00A0, U+2000.., U+3000, U+0085) might be stripped by a
    # unicode-aware implementation: treat as unsettled
    try:
        s = b.decode("utf-8")
    except UnicodeDecodeError:
        s = b.decode("utf-8", "ignore")
    return any(ch.isspace() and ord(ch) > 127 for ch in s)


def http_shape(line):
    body = _chomp(line)
    toks = body.split(b" ")
    unsettled = any(_odd_ws(t) for t in toks) or b"" in toks or _has_utf8_space(body) \
        or b"\r" in body or b"\n" in body
    stripped = [t.strip(_WS) for t in toks]
    clear = (len(toks) == 3 and toks[0] in (b"GET", b"HEAD") and toks[2].startswith(b"HTTP/"))
    if clear and not unsettled:
        return True
    if unsettled:
        # could an implementation that trims tokens see a request line here?
        nonempty = [t for t in stripped]
        if len(nonempty) == 3 and nonempty[0] in (b"GET", b"HEAD") and nonempty[2].startswith(b"HTTP/"):
            return None
        if clear:
            return None
        return False
    return False


def http_target(line):
    toks = _chomp(line).split(b" ")
    return toks[1].strip(_WS) if len(toks) >= 2 else b""


def parse_headers(block):
    """header block bytes (after the request line) -> dict lower-name -> value (as sent, incl. leading blank)"""
    hdrs = {}
    for raw in block.split(b"\n"):
        l = raw.strip(_WS)
        if not l:
            break
        if b":" in l:
            k, v = l.split(b":", 1)
            hdrs[k.lower()] = v
    return hdrs


def wap_shape(line, headers_block, waptop=b"/wap"):
    h = http_shape(line)
    if h is False:
        return False
    tgt = http_target(line)
    if tgt.startswith(waptop):
        return h  # True or None
    hdrs = parse_headers(headers_block)
    acc = hdrs.get(b"accept")
    if acc is None or b"text/vnd.wap.wml" not in acc:
        return False
    if not (b"x-wap-profile" in hdrs or b"x-up-devcap-max-pdu" in hdrs):
        return False
    # listed as a media range of its own?
    if re.search(rb"(^|[, ])text/vnd\.wap\.wml($|[;, ])", acc):
        if re.search(rb"[, ]text/vnd\.wap\.wml", acc):
            return h
        return None  # "Accept:text/vnd.wap.wml" without a blank: valid HTTP, detection heuristic silent
    return None


def gemini_shape(line):
    return line.startswith(b"gemini://")


def spartan_shape(line):
    if any(c >= 0x80 for c in line):
        return False
    body = line.strip(_WS)
    toks = body.split(b" ")
    if len(toks) != 3 or not all(toks):
        return False
    if any(c in _WS for t in toks for c in t):
        return None
    return bool(re.fullmatch(rb"[0-9]+", toks[2]))


def gplus_shape(line):
    fields = _chomp(line).split(b"\t")
    if len(fields) < 2 or len(fields) > 3:
        # a trailing CR/LF inside does not change the count
        return False
    last = fields[-1]
    if _odd_ws(last) or _has_utf8_space(last):
        t = last.strip(_WS)
        ok = t == b"!" or t[:1] in (b"+", b"$")
        okraw = last == b"!" or last[:1] in (b"+", b"$")
        if ok != okraw:
            return None
        return ok
    return last == b"!" or last[:1] in (b"+", b"$")


def shapes(line, headers_block=b""):
    return {
        "wap": wap_shape(line, headers_block),
        "gemini": gemini_shape(line),
        "http": http_shape(line),
        "spartan": spartan_shape(line),
        "gplus": gplus_shape(line),
        "gopher": True,
    }


def expected_winners(line, headers_block, tls, order):
    """Set of admissible winners (class names; None = nobody claims the line)."""
    sh = shapes(line, headers_block)
    unknown = [k for k, v in sh.items() if v is None]
    winners = set()
    for combo in itertools.product([False, True], repeat=len(unknown)):
        res = dict(sh)
        res.update(dict(zip(unknown, combo)))
        # WAP implies HTTP shape
        if res["wap"] and not res["http"]:
            continue
        w = None
        for cls in order:
            fam, secure = CLASSES[cls]
            if secure == bool(tls) and res[fam]:
                w = cls
                break
        winners.add(w)
    return winners, sh
