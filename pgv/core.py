"""Shared small types: Fail, Ctx, case hashing."""
from __future__ import annotations

import hashlib
import json
from collections import Counter


class CaseTimeout(BaseException):
    """Raised by the per-case watchdog."""


class Fail:
    """One oracle violation.  sig identifies the root cause (oracle clause + where), it is what
    known_findings.json lists; msg is for humans; detail is JSON-able."""

    __slots__ = ("sig", "msg", "detail")

    def __init__(self, sig, msg, detail=None):
        self.sig = sig
        self.msg = msg
        self.detail = detail

    def __repr__(self):
        return "Fail(%r, %r)" % (self.sig, self.msg)


def jdump(x):
    return json.dumps(x, sort_keys=True, ensure_ascii=True, default=_default)


def _default(o):
    if isinstance(o, (bytes, bytearray)):
        return {"__bytes__": o.decode("latin-1")}
    if isinstance(o, (set, frozenset)):
        return sorted(o)
    if isinstance(o, tuple):
        return list(o)
    return repr(o)


def case_hash(case):
    return hashlib.blake2b(jdump(case).encode(), digest_size=8).hexdigest()


class Ctx:
    """Per-shard bookkeeping: evaluations, class histogram, distinct non-trivial cases, samples."""

    MAX_SAMPLES = 4

    def __init__(self):
        self.evaluations = 0
        self.hist = Counter()
        self.nontrivial = set()
        self.samples = []
        self.sample_keys = set()
        self.extra = Counter()
        self._cur = None
        self.tier = "quick"

    def begin(self, case):
        self.evaluations += 1
        self._cur = None
        self._case = case

    def _hash(self):
        if self._cur is None:
            self._cur = case_hash(self._case)
        return self._cur

    def label(self, *names):
        for n in names:
            self.hist[n] += 1

    def nontriv(self, key=None):
        """Mark the current case non-trivial; distinctness by key (default: hash of the case)."""
        self.nontrivial.add(self._hash() if key is None else
                            hashlib.blake2b(jdump(key).encode(), digest_size=8).hexdigest())

    def sample(self, obj=None, cls=None):
        """Keep up to MAX_SAMPLES cases, at most one per class name."""
        if len(self.samples) >= self.MAX_SAMPLES or (cls is not None and cls in self.sample_keys):
            return
        self.sample_keys.add(cls)
        s = obj if obj is not None else self._case
        txt = jdump(s)
        if len(txt) > 3000:
            s = {"truncated_json": txt[:3000]}
        self.samples.append(s)

    def count(self, name, n=1):
        self.extra[name] += n

    def export(self):
        return {
            "evaluations": self.evaluations,
            "hist": dict(self.hist),
            "nontrivial": list(self.nontrivial),
            "samples": self.samples,
            "extra": dict(self.extra),
        }
