"""In-process driver: one request = (config, tree on disk, request bytes, tls) -> Result.

Nothing here imports pygopherd at module import time before REPO has been put first on sys.path.
"""
from __future__ import annotations

import configparser
import io
import os
import socket
import ssl
import sys
import types
import warnings

warnings.filterwarnings("ignore")

from pgv.core import CaseTimeout

REPO = os.environ.get("PGV_REPO", "/repo")
if sys.path[0] != REPO:
    sys.path.insert(0, REPO)
os.environ.setdefault("PYTHONDONTWRITEBYTECODE", "1")
sys.dont_write_bytecode = True

import pygopherd  # noqa: E402
from pygopherd import GopherExceptions, gopherentry, initialization, logger  # noqa: E402
from pygopherd.handlers import HandlerMultiplexer  # noqa: E402
import pygopherd.handlers.base as hbase  # noqa: E402
import pygopherd.handlers.UMN as hUMN  # noqa: E402
import pygopherd.fileext  # noqa: E402
from pygopherd.server import GopherRequestHandler  # noqa: E402

assert os.path.realpath(os.path.dirname(pygopherd.__file__)).startswith(
    os.path.realpath(REPO)
), "pygopherd not imported from the working tree: %s" % pygopherd.__file__

SERVER_NAME = "gopher.example"
SERVER_PORT = 7070
CLIENT = ("10.77.77.77", 7777)

FULL_HANDLERS = None
_conf_text_cache = {}


def _read_conf(name):
    path = os.path.join(REPO, "conf", name)
    if path not in _conf_text_cache:
        with open(path) as f:
            _conf_text_cache[path] = f.read()
    return _conf_text_cache[path]


def make_config(root, kind="shipped", cls=None, **overrides):
    """kind: 'shipped' = conf/pygopherd.conf as is; 'full' = conf/local.conf (TAL, PYG, Exec, ZIP,
    Compressed, URLTypeRewriter).  overrides: 'section.option'-keyed or bare [pygopherd] options."""
    config = (cls or configparser.ConfigParser)()
    config.read_string(_read_conf("pygopherd.conf" if kind == "shipped" else "local.conf"))
    config.set("pygopherd", "root", root)
    config.set("pygopherd", "mimetypes", os.path.join(REPO, "conf", "mime.types"))
    config.set("pygopherd", "usechroot", "no")
    config.set("pygopherd", "enable_tls", "no")
    config.set("logger", "logmethod", "none")
    if config.has_option("pygopherd", "servername"):
        config.remove_option("pygopherd", "servername")
    config.set("pygopherd", "tracebacks", "no")
    for k, v in overrides.items():
        if "::" in k:
            sec, opt = k.split("::", 1)
        else:
            sec, opt = "pygopherd", k
        if not config.has_section(sec):
            config.add_section(sec)
        config.set(sec, opt, str(v))
    return config


_mime_inited = None


import mimetypes as _mimetypes_mod  # noqa: E402

_ENC0 = dict(_mimetypes_mod.encodings_map)


def init_mimetypes_once(config):
    """fileext.init() extends lists on every call; initialise once per (encoding, mimetypes) value."""
    global _mime_inited
    key = (config.get("pygopherd", "encoding"), config.get("pygopherd", "mimetypes"))
    if _mime_inited == key:
        return
    pygopherd.fileext.typemap.clear()
    # like a freshly started server process: the interpreter's own encoding table, untouched by an earlier configuration
    import mimetypes as _mt
    _mt.encodings_map.clear()
    _mt.encodings_map.update(_ENC0)
    old = logger.__dict__.get("log")
    logger.log = lambda m: None
    try:
        initialization.init_mimetypes(config)
    finally:
        if old is not None:
            logger.log = old
    _mime_inited = key


_ENV0 = dict(os.environ)


def reset_globals():
    if dict(os.environ) != _ENV0:
        os.environ.clear()
        os.environ.update(_ENV0)
    HandlerMultiplexer.handlers = None
    HandlerMultiplexer.rootpath = None
    hbase.rootpath = None
    gopherentry.mapping = None
    gopherentry.eaexts = None
    hUMN.extstrip = None
    GopherExceptions.tracebacks = 0


class ServerStub:
    def __init__(self, config, name=SERVER_NAME, port=SERVER_PORT):
        self.config = config
        self.server_name = name
        self.server_port = port
        self.context = None


class WFile:
    """Unbuffered writer on a real fd (memfd), like socketserver._SocketWriter on a socket."""

    def __init__(self):
        self.fd = os.memfd_create("pgv-wfile")
        self.closed = False
        self.writes = 0

    def writable(self):
        return True

    def write(self, b):
        self.writes += 1
        mv = memoryview(b)
        n = 0
        while n < len(mv):
            n += os.write(self.fd, mv[n:])
        return len(mv)

    def flush(self):
        pass

    def fileno(self):
        return self.fd

    def close(self):
        self.closed = True

    def getvalue(self):
        size = os.lseek(self.fd, 0, os.SEEK_END)
        return os.pread(self.fd, size, 0)

    def dispose(self):
        try:
            os.close(self.fd)
        except OSError:
            pass


class MemWFile(io.BytesIO):
    """Cheap writer for cases that never hand wfile to a subprocess."""

    def __init__(self):
        super().__init__()
        self.writes = 0
        self._final = None

    def write(self, b):
        self.writes += 1
        return super().write(b)

    def close(self):
        if self._final is None:
            self._final = super().getvalue()
        super().close()

    def getvalue(self):
        if self._final is not None:
            return self._final
        return super().getvalue()

    def dispose(self):
        pass


class ReadsBeyondRequest(BaseException):
    """the server asked the connection for bytes a client that has sent a complete request never sends: on a real
    connection kept open by the client this read blocks until the socket timeout, or for ever"""


class OpenRFile(io.BytesIO):
    """the receiving side of a connection whose client has sent `request` and keeps the connection open"""

    def readline(self, size=-1):
        data = super().readline(size)
        if not data.endswith(b"\n") and (size is None or size < 0 or len(data) < size):
            raise ReadsBeyondRequest("readline() after %d bytes" % self.tell())
        return data

    def read(self, n=-1):
        if n is None or n < 0:
            raise ReadsBeyondRequest("read() to end of stream")
        data = super().read(n)
        if len(data) < n:
            raise ReadsBeyondRequest("read(%d) after %d bytes" % (n, self.tell()))
        return data

    def readlines(self, hint=-1):
        raise ReadsBeyondRequest("readlines()")


SEGMENT_HOOK = [None]


class _SegmentedRaw(io.RawIOBase):
    """the receiving side of a TCP connection on which the client's bytes arrive in segments of at most `seg` bytes; at
    the end of what the client sent: EOF (client closed its sending side) or, with open_conn, ReadsBeyondRequest"""

    def __init__(self, data, seg, open_conn):
        super().__init__()
        self.data, self.pos, self.seg, self.open_conn = bytes(data), 0, max(1, seg), open_conn
        self.calls = 0

    def readable(self):
        return True

    def readinto(self, b):
        self.calls += 1
        if SEGMENT_HOOK[0] is not None:
            SEGMENT_HOOK[0](self)  # a harness-owned schedule point: "the next segment of the request arrives now"
        if self.pos >= len(self.data):
            if self.open_conn:
                raise ReadsBeyondRequest("read after all %d bytes of the request" % len(self.data))
            return 0
        n = min(len(b), self.seg, len(self.data) - self.pos)
        b[:n] = self.data[self.pos:self.pos + n]
        self.pos += n
        return n


def segmented_rfile(data, seg, open_conn=False):
    """what socketserver.StreamRequestHandler.setup() builds for rbufsize = -1: a BufferedReader over the socket"""
    return io.BufferedReader(_SegmentedRaw(data, seg, open_conn))


class MockRequest(socket.socket):
    def __init__(self, rfile, wfile):  # noqa: no super().__init__ on purpose (no real socket)
        self._rfile = rfile
        self._wfile = wfile

    def makefile(self, mode, *a, **k):
        if mode[0] == "r":
            return self._rfile
        return self._wfile

    def sendall(self, data, *a):
        return self._wfile.write(data)

    def __del__(self):
        pass

    def close(self):
        pass

    def settimeout(self, t):
        pass

    def setsockopt(self, *a):
        pass


class MockSSLRequest(MockRequest, ssl.SSLSocket):
    def __del__(self):
        pass


class _RawWriter(io.RawIOBase):
    """raw stream over the harness's wfile object (stands for the socket) when the handler class asks for buffering"""

    def __init__(self, w):
        super().__init__()
        self.w = w

    def writable(self):
        return True

    def write(self, b):
        self.w.write(bytes(b))
        return len(b)

    def fileno(self):
        return self.w.fileno()


class Handler(GopherRequestHandler):
    """The repository's connection handler with only the socket replaced.  The buffering attributes rbufsize / wbufsize
    are NOT overridden: the client file object is built the way socketserver.StreamRequestHandler.setup() builds it
    (unbuffered writer for wbufsize == 0, a BufferedWriter otherwise)."""

    def __init__(self, request, client_address, server):  # noqa
        self.request = request
        self.client_address = client_address
        self.server = server
        self.connection = request
        self.rfile = request._rfile
        if self.wbufsize == 0:
            self.wfile = request._wfile
        else:
            self.wfile = io.BufferedWriter(_RawWriter(request._wfile),
                                           buffer_size=io.DEFAULT_BUFFER_SIZE if self.wbufsize < 0 else max(1, self.wbufsize))


class Result:
    __slots__ = ("response", "logs", "escaped", "stderr", "proto", "handler", "writes", "closed",
                 "handled")

    def __init__(self):
        self.response = b""
        self.logs = []
        self.escaped = None
        self.stderr = ""
        self.proto = None
        self.handler = None
        self.writes = 0
        self.closed = False
        self.handled = []  # exception objects passed to GopherExceptions.log

    def handled_signatures(self):
        return [exc_signature(e) for e in self.handled]

    def exception_classes(self):
        """Classes named in 'EXCEPTION <cls>:' log records."""
        out = []
        for l in self.logs:
            i = l.find("] EXCEPTION ")
            if i >= 0:
                rest = l[i + 12:]
                out.append(rest.split(":", 1)[0])
        return out

    def handler_names(self):
        """[(proto, handler)] from 'addr [Proto/Handler]: selector' access records."""
        out = []
        for l in self.logs:
            if "] EXCEPTION " in l:
                continue
            a = l.find(" [")
            b = l.find("]: ", a)
            if a >= 0 and b >= 0 and "/" in l[a + 2:b]:
                out.append(tuple(l[a + 2:b].split("/", 1)))
        return out


_current_handled = None
_orig_gelog = GopherExceptions.log


def _gelog_recorder(exception, protocol=None, handler=None):
    if _current_handled is not None:
        _current_handled.append(exception)
    return _orig_gelog(exception, protocol, handler)


def serve(config, request, tls=False, wfile=None, realfd=False, reset=True, server=None,
          keep_protocol=False, open_conn=False, segment=None):
    """Run one connection through GopherRequestHandler.handle(), exactly as socketserver would,
    with the socket replaced.  `request` = all bytes the client sends."""
    if reset:
        reset_globals()
    init_mimetypes_once(config)
    res = Result()
    logs = res.logs
    logger.log = logs.append
    global _current_handled
    _current_handled = res.handled
    if GopherExceptions.log is not _gelog_recorder:
        GopherExceptions.log = _gelog_recorder
    if server is None:
        server = ServerStub(config)
    if segment:
        rfile = segmented_rfile(request, segment, open_conn)
    else:
        rfile = OpenRFile(request) if open_conn else io.BytesIO(request)
    own_w = wfile is None
    if own_w:
        wfile = WFile() if realfd else MemWFile()
    req = (MockSSLRequest if tls else MockRequest)(rfile, wfile)
    h = Handler(req, CLIENT, server)
    old_err = sys.stderr
    sys.stderr = errbuf = io.StringIO()
    try:
        try:
            GopherRequestHandler.handle(h)
        except BaseException as e:  # what socketserver.handle_error would see
            if isinstance(e, (KeyboardInterrupt, SystemExit, CaseTimeout)):
                raise
            res.escaped = e
        try:
            h.finish()
        except BaseException as e:
            if isinstance(e, (KeyboardInterrupt, SystemExit, CaseTimeout)):
                raise
            if res.escaped is None:
                res.escaped = e
    finally:
        sys.stderr = old_err
    res.stderr = errbuf.getvalue()
    try:
        res.response = wfile.getvalue()
    except Exception:
        res.response = b""
    res.writes = getattr(wfile, "writes", 0)
    res.closed = getattr(wfile, "closed", False)
    if own_w:
        wfile.dispose()
    return res


def innermost_repo_frame(exc):
    """(function name, file basename) of the innermost traceback frame that lies under REPO."""
    tb = exc.__traceback__
    best = None
    rp = os.path.realpath(REPO)
    while tb is not None:
        fn = tb.tb_frame.f_code.co_filename
        if os.path.realpath(fn).startswith(rp):
            best = (tb.tb_frame.f_code.co_name, os.path.basename(fn))
        tb = tb.tb_next
    return best or ("?", "?")


def exc_signature(exc):
    fr = innermost_repo_frame(exc)
    return "%s@%s:%s" % (type(exc).__name__, fr[1], fr[0])


def get_protocol(config, line, rest=b"", tls=False):
    """ProtocolMultiplexer.getProtocol on a first line (bytes, as readline() returns it) with `rest`
    still unread on the connection.  Returns the protocol object (or None); exceptions propagate."""
    from pygopherd.protocols import ProtocolMultiplexer
    init_mimetypes_once(config)
    logger.log = lambda m: None
    server = ServerStub(config)
    rfile = io.BytesIO(rest)
    wfile = MemWFile()
    req = (MockSSLRequest if tls else MockRequest)(rfile, wfile)
    h = Handler(req, CLIENT, server)
    return ProtocolMultiplexer.getProtocol(
        line.decode(errors="surrogateescape"), server, h, h.rfile, h.wfile, config)


def detect(config, data, tls=False):
    """The protocol chosen for a connection on which the client sends `data`, decided the way the server decides it:
    through GopherRequestHandler.handle() (which reads the first line itself); the chosen protocol's own handle() is not
    run.  Returns (protocol object or None, first line as the multiplexer received it)."""
    import pygopherd.server as pserver
    init_mimetypes_once(config)
    logger.log = lambda m: None
    server = ServerStub(config)
    req = (MockSSLRequest if tls else MockRequest)(io.BytesIO(data), MemWFile())
    h = Handler(req, CLIENT, server)
    seen = {}
    orig = pserver.ProtocolMultiplexer.getProtocol

    class _Stop:
        def handle(self):
            pass

    def wrapper(request, *a, **k):
        seen["line"] = request
        seen["proto"] = orig(request, *a, **k)
        return _Stop()
    pserver.ProtocolMultiplexer.getProtocol = wrapper
    try:
        GopherRequestHandler.handle(h)
    finally:
        pserver.ProtocolMultiplexer.getProtocol = orig
    return seen.get("proto"), seen.get("line")


def snapshot_globals():
    return (HandlerMultiplexer.handlers, HandlerMultiplexer.rootpath, hbase.rootpath,
            gopherentry.mapping, gopherentry.eaexts, hUMN.extstrip, dict(os.environ))


def restore_globals(s):
    (HandlerMultiplexer.handlers, HandlerMultiplexer.rootpath, hbase.rootpath,
     gopherentry.mapping, gopherentry.eaexts, hUMN.extstrip, env) = s
    if dict(os.environ) != env:
        os.environ.clear()
        os.environ.update(env)
