"""Hypothesis strategies for TAL template ASTs + contexts (see pgv/model/tal.py for the AST), and token utilities."""
from __future__ import annotations

import html.parser

from hypothesis import strategies as st

TAGS = ["div", "p", "span", "b", "i", "ul", "li", "em", "h1", "td", "section"]
VOID = ["br", "img", "hr", "input"]

HOSTILE = ["<b>bold</b>", "a & b", "\"quoted\"", "'single'", "x < y > z", "&amp;", "</div>", "<script>x()</script>", "1 < 2", "café",
           "€", "tab\there", "line\nbreak", "]]>", "<!--", "-->", "&#60;"]
TAME = ["alpha", "beta", "gamma delta", "42", "x", "Hello World", "zz top"]


def text_value(hostile):
    return st.sampled_from(HOSTILE + TAME) if hostile else st.sampled_from(TAME)


@st.composite
def context(draw, hostile=True):
    tv = text_value(hostile)
    items_kind = draw(st.sampled_from(["str", "int", "dict"]))
    n = draw(st.integers(1, 5))
    if items_kind == "str":
        lst = draw(st.lists(tv, min_size=n, max_size=n))
    elif items_kind == "int":
        lst = draw(st.lists(st.integers(-5, 99), min_size=n, max_size=n))
    else:
        lst = [{"k_a": draw(tv), "k_n": draw(st.integers(0, 9))} for _ in range(n)]
        for it in lst:
            if draw(st.booleans()):
                it["k_opt"] = draw(tv)  # present in some items only
    return {
        "s1": draw(tv), "s2": draw(tv), "n1": draw(st.integers(-3, 1000)), "zero": 0, "es": "", "none1": None,
        "empty": [], "lst": lst, "lst2": draw(st.lists(tv, min_size=1, max_size=3)),
        "d1": {"k_a": draw(tv), "k_b": {"k_c": draw(tv)}, "k_l": draw(st.lists(st.integers(0, 9), max_size=3)), "k_none": None,
               "7": draw(tv), "2024": {"k_a": draw(tv)}},  # mapping keys that look like numbers
        "f1": {"__call__": draw(tv)}, "fl": {"__call__": draw(st.lists(tv, min_size=0, max_size=3))},
        "fd": {"__call__": {"k_a": draw(tv)}},
        "textual": draw(tv), "texts": draw(st.lists(tv, min_size=1, max_size=2)), "structure_note": draw(tv), "structured": {"k_a": draw(tv)},
        "textile": draw(tv), "nocallx": draw(tv), "notx": draw(tv), "existsx": draw(tv),
        # values that are not strings but whose text form carries markup (a list, a mapping): substituted as text or as an
        # attribute value they are data like any string
        "hl": ['x" onmouseover="y', "<b>", draw(tv)] if hostile else ["la", "lb", draw(tv)],
        "hd": {"k_q": 'q"><u>', "k_r": draw(tv)},
    }


BASE_PATHS = ["s1", "s2", "n1", "zero", "es", "none1", "empty", "lst", "lst2", "d1/k_a", "d1/k_b/k_c", "d1/k_l", "d1/k_none",
              "d1/missing", "missing", "missing/deeper", "f1", "fd/k_a", "lst/0", "lst/7", "lst2/0", "d1/k_l/0", "nothing", "default",
              "s1/nope", "d1/7", "d1/2024/k_a", "d1/3", "lst/-1", "lst2/-1", "d1/k_l/-1", "lst2/-9",
              # names that tal:define statements elsewhere in the template may (or may not) have defined: out of their scope they
              # are missing, and a global define is seen from there on
              "v00", "v01", "v10", "v11", "v20", "v21", "v30", "gv1", "globalnav", "locale", "localx",
              # names that BEGIN with a keyword of the content / replace / define syntax (they are ordinary names)
              "textual", "texts/0", "structure_note", "structured/k_a", "textile", "nocallx", "notx", "existsx",
              "hl", "hl", "hd", "hd", "hl/0", "hd/k_q"]
SEQ_PATHS = ["lst", "lst", "lst2", "empty", "fl", "d1/k_l", "none1", "missing", "nothing", "default", "n1"]
REPEAT_PROPS = ["index", "number", "even", "odd", "start", "end", "length", "letter", "Letter", "roman", "Roman"]


def paths(scope):
    ps = []
    for v in scope.get("vars", []):
        ps += [v, v, v + "/k_a", v + "/k_n", v + "/k_opt"]
    for v in scope.get("repeats", []):
        ps += ["repeat/%s/%s" % (v, p) for p in REPEAT_PROPS]
    for v in scope.get("defined", []):
        ps += [v, v]
    own = ["attrs/" + a for a in scope.get("attrs") or []]
    ps += own
    if not ps:
        return st.sampled_from(BASE_PATHS)
    # names the enclosing elements put in scope are drawn as often as the fixed ones (the fixed list is long); the element's
    # own attributes (`attrs`, which changes with every element) are not crowded out by the many loop properties either
    if own and len(ps) > 3 * len(own):
        return st.one_of(st.sampled_from(BASE_PATHS), st.sampled_from(ps), st.sampled_from(ps), st.sampled_from(own))
    return st.one_of(st.sampled_from(BASE_PATHS), st.sampled_from(ps))


@st.composite
def expr(draw, scope, allow_default=True):
    p = paths(scope)
    if not allow_default:
        p = p.filter(lambda x: x != "default")
    kind = draw(st.sampled_from(["path", "path", "path", "alt", "exists", "not", "notexists", "nocall", "string", "string", "existsalt", "nocallalt"]))
    if kind == "path":
        if scope.get("vars") and draw(st.integers(0, 3)) == 0:
            # plain alternation (not under a prefix): value for some items, default / nothing for the others
            return "%s/k_opt | %s" % (draw(st.sampled_from(scope["vars"])), draw(st.sampled_from(["default", "nothing"]) if allow_default else st.just("nothing")))
        return draw(p)
    if kind == "alt":
        parts = draw(st.lists(p, min_size=2, max_size=3))
        tail = draw(st.sampled_from([None, None, "string:fallback text", "nothing", "default" if allow_default else "nothing"]))
        if tail:
            parts.append(tail)
        return draw(st.sampled_from([" | ", "|", " |"])).join(parts)
    if kind == "exists":
        return "exists:" + draw(p)
    if kind == "existsalt":
        # alternation under exists: - closed by an alternative that always resolves to something true, so that every reading of
        # "a later alternative that resolves but is false" (TALES leaves it open) gives the same answer
        return "%sexists:%s | %s | string:yes" % (draw(st.sampled_from(["", "", "not:"])), draw(p), draw(p))
    if kind == "nocallalt":
        ok = p.filter(lambda x: not x.startswith(("f1", "fl", "fd", "repeat/")))
        return "nocall:%s | %s | string:fallback ${s1}" % (draw(ok), draw(ok))
    if kind == "not":
        return "not:" + draw(p)
    if kind == "notexists":
        return "not:exists:" + draw(p)
    if kind == "nocall":
        return "nocall:" + draw(p.filter(lambda x: not x.startswith(("f1", "fl", "fd", "repeat/"))))
    # string:  (simpleTAL's default marker is an ordinary str, so `default` is not interpolated: meaningless input)
    ps = p.filter(lambda x: x != "default")
    pieces = draw(st.lists(st.one_of(
        st.sampled_from(["text ", "a;b ", "x=", "100% ", "<i> ", "& "]),
        ps.map(lambda x: "${%s}" % x),
        st.builds(lambda a, b: "${%s | %s}" % (a, b), ps, ps),  # a full path expression, alternation included
        st.just("$$"),
        ps.map(lambda x: "$%s " % x),
    ), min_size=1, max_size=4))
    s = "".join(pieces).strip()
    return "string:" + (s or "lit")


@st.composite
def element(draw, depth, scope, allow_metal_slot=False):
    void = draw(st.integers(0, 7)) == 0
    nsblock = (not void) and draw(st.integers(0, 9)) == 0
    tag = draw(st.sampled_from(VOID)) if void else ("tal:block" if nsblock else draw(st.sampled_from(TAGS)))
    attrs = []
    for name in draw(st.lists(st.sampled_from(["class", "id", "title", "href", "data-x"]), max_size=3, unique=True)):
        attrs.append([name, draw(st.sampled_from(["c1", "main", "a & b", "x\"y", "", "http://x/?a=1&b=2", "café"]))])
    tal = {}
    sc = dict(scope, attrs=[a[0] for a in attrs])
    inner = dict(sc)
    cmds = draw(st.lists(st.sampled_from(["define", "condition", "repeat", "content", "replace", "attributes", "omit-tag"]),
                         max_size=4, unique=True))
    if "content" in cmds and "replace" in cmds:
        cmds.remove(draw(st.sampled_from(["content", "replace"])))
    if void and "content" in cmds:
        cmds.remove("content")
    if "define" in cmds:
        clauses = []
        defined = list(sc.get("defined", []))
        for i in range(draw(st.integers(1, 2))):
            # (names that merely begin with a scope keyword are ordinary names)
            name = "v%d%d" % (depth, i) if draw(st.booleans()) else draw(st.sampled_from(["s2", "gv1", "globalnav", "locale", "localx", "globals1"]))
            scope_kw = draw(st.sampled_from(["", "local ", "global ", "global "] if i == 0 else ["", "", "local ", "global "]))
            ex = draw(expr(dict(sc, defined=defined), allow_default=False))
            clauses.append("%s%s %s" % (scope_kw, name, ex.replace(";", ";;")))
            defined = defined + [name]
        tal["define"] = draw(st.sampled_from(["; ", ";"])).join(clauses)
        sc = dict(sc, defined=defined)
        inner = dict(inner, defined=defined)
    if "condition" in cmds:
        tal["condition"] = draw(expr(sc))
    if "repeat" in cmds:
        var = "it%d" % depth
        if sc.get("vars") and draw(st.integers(0, 3)) == 0:
            var = draw(st.sampled_from(sc["vars"]))  # an inner loop shadowing an outer loop variable
        tal["repeat"] = "%s %s" % (var, draw(st.sampled_from(SEQ_PATHS)))
        sc = dict(sc, vars=[v for v in sc.get("vars", []) if v != var] + [var],
                  repeats=[v for v in sc.get("repeats", []) if v != var] + [var])
        inner = dict(inner, vars=sc["vars"], repeats=sc["repeats"])
    for key in ("content", "replace"):
        if key in cmds:
            mode = draw(st.sampled_from(["", "", "text ", "structure "]))
            if "repeat" in tal and draw(st.integers(0, 3)) == 0:
                # on the loop's own element: a value for some iterations, `default` (the template's body) or nothing for others
                tal[key] = mode + "%s/k_opt | %s" % (tal["repeat"].split()[0], draw(st.sampled_from(["default", "default", "nothing"])))
                continue
            tal[key] = mode + draw(expr(sc))
    if "attributes" in cmds:
        cl = []
        # (half of the names are attributes the element has itself: `default` then means its own value)
        own = [a[0] for a in attrs]
        for an in draw(st.lists(st.sampled_from((own * 2 if own else []) + ["class", "title", "href", "data-y", "alt"]), min_size=1, max_size=2, unique=True)):
            if sc.get("vars") and draw(st.booleans()):
                # value for some iterations, default / nothing for others: per-iteration attribute state
                cl.append("%s %s/k_opt | %s" % (an, sc["vars"][-1], draw(st.sampled_from(["default", "nothing"]))))
                continue
            cl.append("%s %s" % (an, draw(expr(sc)).replace(";", ";;")))
        tal["attributes"] = "; ".join(cl)
    bare = False
    if "omit-tag" in cmds and not nsblock:
        tal["omit-tag"] = draw(st.one_of(st.just(""), expr(sc)))
        bare = tal["omit-tag"] == "" and draw(st.booleans())
    kids = []
    if not void:
        kids = draw(nodes(depth - 1, inner)) if depth > 0 else [{"t": "text", "s": draw(st.sampled_from(["leaf", "a & b", "x < y", ""]))}]
    n = {"t": "el", "tag": tag, "attrs": attrs, "tal": tal, "metal": {}, "kids": kids, "void": void}
    if bare:
        n["bare_omit"] = True
    return n


@st.composite
def nodes(draw, depth, scope):
    out = []
    for _ in range(draw(st.integers(1, 3))):
        if draw(st.integers(0, 3)) == 0 or depth < 0:
            out.append({"t": "text", "s": draw(st.sampled_from(["plain text", " ", "a & b", "1 < 2", "café ", "\n  "]))})
        else:
            out.append(draw(element(depth, scope)))
    return out


_PROBE_NAMES = ["v00", "v01", "v10", "v11", "v20", "v21", "v30", "v31", "gv1", "globalnav", "locale", "localx", "globals1", "nav"]
_PROBE = {"t": "el", "tag": "i", "attrs": [["id", "probe"]], "metal": {}, "kids": [{"t": "text", "s": "x"}], "void": False,
          "tal": {"content": "string:" + "/".join("${%s | nothing}" % n for n in _PROBE_NAMES)}}


def template(max_depth=3):
    """element nodes; half of the templates end with a probe element that prints every name a tal:define elsewhere in the
    template may have defined - what is visible at the very end is exactly the global defines"""
    return st.builds(lambda ns, probe: ns + ([dict(_PROBE)] if probe else []), nodes(max_depth, {}), st.booleans())


# ------------------------------------------------------------------------------------------------ METAL

@st.composite
def metal_pair(draw):
    """(library nodes, main nodes): library defines macro 'box' with slots; main uses it and fills a subset."""
    slots = draw(st.lists(st.sampled_from(["head", "body", "foot"]), max_size=3, unique=True))
    mk = []
    for sname in slots:
        mk.append({"t": "el", "tag": "div", "attrs": [["class", "slot-" + sname]], "tal": {}, "metal": {"define-slot": sname},
                   "kids": [{"t": "text", "s": "default " + sname}], "void": False})
        mk.append({"t": "text", "s": " / "})
    mk += draw(nodes(1, {}))
    macro = {"t": "el", "tag": "section", "attrs": [["class", "box"]], "tal": {}, "metal": {"define-macro": "box"}, "kids": mk, "void": False}
    lib = [{"t": "text", "s": "lib start "}, macro, {"t": "text", "s": " lib end"}]
    fills = []
    for sname in draw(st.lists(st.sampled_from(slots + ["unused"]), max_size=3, unique=True)) if slots else []:
        fk = draw(nodes(1, {}))
        tal = {}
        if draw(st.booleans()):
            tal["content"] = draw(expr({}))
        if slots and "content" not in tal and draw(st.integers(0, 2)) == 0:
            # a second use of the macro INSIDE this filling, with fillings of its own (possibly for a slot of the same name):
            # a fill-slot belongs to the nearest enclosing use-macro
            inner_fills = []
            for s2 in draw(st.lists(st.sampled_from(slots + [sname]), min_size=1, max_size=2, unique=True)):
                inner_fills.append({"t": "el", "tag": "b", "attrs": [["id", "inner-" + s2]], "tal": {}, "metal": {"fill-slot": s2},
                                    "kids": [{"t": "text", "s": "inner fill " + s2}], "void": False})
            fk = fk + [{"t": "el", "tag": "div", "attrs": [["id", "nested-user"]], "tal": {}, "metal": {"use-macro": "lib/macros/box"},
                        "kids": inner_fills, "void": False}]
        fills.append({"t": "el", "tag": "p", "attrs": [["id", "fill-" + sname]], "tal": tal, "metal": {"fill-slot": sname}, "kids": fk, "void": False})
        fills.append({"t": "text", "s": "ignored text between fills"})
    use_expr = draw(st.sampled_from(["lib/macros/box", "lib/macros/box", "lib/macros/nosuch", "nothing", "lib/macros/nosuch | lib/macros/box"]))
    use = {"t": "el", "tag": "div", "attrs": [["id", "user"]], "tal": {}, "metal": {"use-macro": use_expr}, "kids": fills, "void": False}
    main = draw(nodes(1, {})) + [use] + draw(nodes(1, {}))
    if draw(st.booleans()):
        # the whole library template included as structure: its define-slots must show their own defaults
        main.append({"t": "el", "tag": "div", "attrs": [["id", "incl"]], "tal": {"replace": "structure lib"}, "metal": {}, "kids": [], "void": False})
    if draw(st.booleans()):
        # a second use of the macro, with other (or no) fills: slot parameters must not leak from the first use
        fills2 = []
        for sname in draw(st.lists(st.sampled_from(slots), max_size=1, unique=True)) if slots else []:
            fills2.append({"t": "el", "tag": "em", "attrs": [["id", "second-" + sname]], "tal": {}, "metal": {"fill-slot": sname},
                           "kids": [{"t": "text", "s": "second fill"}], "void": False})
        main.append({"t": "el", "tag": "div", "attrs": [["id", "user2"]], "tal": {}, "metal": {"use-macro": "lib/macros/box"},
                     "kids": fills2, "void": False})
    if draw(st.integers(0, 2)) == 0:
        # the macro used (or the library included as structure) INSIDE the body of a loop whose element has attributes of its
        # own and a computed one: every iteration starts from the element's own attributes again
        inner = draw(st.sampled_from([
            {"t": "el", "tag": "div", "attrs": [["id", "user-in-loop"]], "tal": {}, "metal": {"use-macro": "lib/macros/box"}, "kids": [], "void": False},
            {"t": "el", "tag": "div", "attrs": [["id", "incl-in-loop"]], "tal": {"content": "structure lib"}, "metal": {}, "kids": [], "void": False}]))
        tal = {"repeat": "mrow %s" % draw(st.sampled_from(["lst2", "lst", "d1/k_l"]))}
        if draw(st.booleans()):
            tal["attributes"] = "title mrow/k_opt | default; data-n repeat/mrow/number"
        row = {"t": "el", "tag": "li", "attrs": [["class", "row"], ["title", "own title"]], "tal": tal, "metal": {},
               "kids": [{"t": "text", "s": "row "}, inner, {"t": "text", "s": " end"}], "void": False}
        main.insert(draw(st.integers(0, len(main))), row)
    return lib, main


# ------------------------------------------------------------------------------------------------ tokens

class _Tok(html.parser.HTMLParser):
    def __init__(self):
        super().__init__(convert_charrefs=True)
        self.toks = []

    def handle_starttag(self, tag, attrs):
        self.toks.append(("s", tag, {k: (v if v is not None else k) for k, v in attrs}))

    def handle_startendtag(self, tag, attrs):
        self.handle_starttag(tag, attrs)

    def handle_endtag(self, tag):
        self.toks.append(("e", tag))

    def handle_data(self, data):
        self.toks.append(("d", data))

    def handle_comment(self, data):
        self.toks.append(("c", data))

    def handle_decl(self, d):
        self.toks.append(("decl", d))

    def handle_pi(self, d):
        self.toks.append(("pi", d))


def tokenise(text):
    p = _Tok()
    p.feed(text)
    p.close()
    return merge(p.toks)


def merge(toks):
    out = []
    for t in toks:
        if t[0] == "d":
            if t[1] == "":
                continue
            if out and out[-1][0] == "d":
                out[-1] = ("d", out[-1][1] + t[1])
                continue
        out.append(t)
    return out


def model_tokens(toks):
    """model token stream -> same shape as tokenise(): raw markup is serialised and re-tokenised in place"""
    import html as _h
    text = []
    for t in toks:
        if t[0] == "s":
            text.append("<%s%s>" % (t[1], "".join(' %s="%s"' % (k, _h.escape(v, quote=True)) for k, v in t[2].items())))
        elif t[0] == "e":
            text.append("</%s>" % t[1])
        elif t[0] == "d":
            text.append(_h.escape(t[1], quote=False))
        elif t[0] == "raw":
            text.append(t[1])
    return tokenise("".join(text))
