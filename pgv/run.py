"""Runner: ./check <ID> [--tier quick|thorough] [--replay FILE] [--seed N] [--workers W]

Exit 0: property held on everything explored (KNOWN-FINDING lines possible)
Exit 1: VIOLATION property=<id> replay=<path>
Exit 2: harness error (never prints VIOLATION)
"""
from __future__ import annotations

import argparse
import importlib
import json
import math
import multiprocessing as mp
import os
import shutil
import signal
import sys
import tempfile
import time
import traceback
import warnings
from collections import Counter

warnings.filterwarnings("ignore")

VERIF = os.path.dirname(os.path.dirname(os.path.abspath(__file__)))
CASE_TIMEOUT_S = 60
MAX_NEW_SIGS = 5
FAILFAST = 40  # failing cases per shard after which the shard stops generating


from pgv.core import CaseTimeout  # noqa: E402


def _alarm(signum, frame):
    raise CaseTimeout()


def load_prop(pid):
    return importlib.import_module("pgv.props.%s" % pid.lower())


def load_known(pid):
    path = os.path.join(VERIF, "known_findings.json")
    known = {}
    if os.path.exists(path):
        with open(path) as f:
            data = json.load(f)
        for ent in data.get("findings", []):
            if ent.get("property") == pid and ent.get("status") == "known":
                for sg in ent.get("signatures", []) + ([ent["signature"]] if "signature" in ent else []):
                    known[sg] = ent.get("what", "")
    return known


def corpus_cases(pid):
    d = os.path.join(VERIF, "corpus", pid)
    out = []
    if os.path.isdir(d):
        for n in sorted(os.listdir(d)):
            if n.endswith(".json"):
                with open(os.path.join(d, n)) as f:
                    out.append((n, json.load(f)["case"]))
    return out


class Recorder:
    def __init__(self, mod, ctx, known):
        self.mod = mod
        self.ctx = ctx
        self.known = known
        self.new = {}
        self.known_counts = Counter()
        self.harness_error = None
        self.failing_cases = 0
        self.stop = False
        self.t0 = time.time()
        self.budget = None
        self.case_timeout = getattr(mod, "CASE_TIMEOUT_S", CASE_TIMEOUT_S)

    def run_case(self, case, origin="gen"):
        """Executes check_case under the watchdog, buckets failures. Returns list of Fail."""
        from pgv.core import Fail, jdump
        if self.stop:
            return []
        if self.budget is not None and time.time() - self.t0 > self.budget:
            # wall budget used up: the remainder of this shard's campaign is inconclusive, never a violation
            self.stop = True
            self.ctx.count("budget_exhausted_shards")
            return []
        self.ctx.begin(case)
        fails = None
        for attempt, limit in ((0, self.case_timeout), (1, 4 * self.case_timeout)):
            t_cpu = sum(os.times()[:4])
            signal.setitimer(signal.ITIMER_REAL, limit)
            try:
                fails = self.mod.check_case(case, self.ctx) or []
                break
            except CaseTimeout:
                busy = sum(os.times()[:4]) - t_cpu
                if attempt == 0 and busy > 0.25 * limit and not getattr(self, "confirmed_hang", False):
                    # the case was computing all the time (not blocked): on a loaded machine that may just be slowness -
                    # the watchdog is a wall clock - so it gets one more run with four times the limit before the verdict
                    self.ctx.count("cases_rerun_after_watchdog")
                    continue
                if attempt == 1:
                    self.confirmed_hang = True  # further watchdog hits in this shard are not given a second run
                fails = [Fail("hang", "case did not finish within %ds%s" % (limit, "" if attempt == 0 else " (second run, four times the limit)"))]
                break
            finally:
                signal.setitimer(signal.ITIMER_REAL, 0)
        if fails:
            self.failing_cases += 1
            if self.failing_cases >= FAILFAST:
                self.stop = True  # enough evidence; do not grind through a badly broken tree
                self.ctx.count("failfast_shards")
        for f in fails:
            if f.sig in self.known:
                self.known_counts[f.sig] += 1
                continue
            size = len(jdump(case))
            cur = self.new.get(f.sig)
            if cur is None or size < cur["size"]:
                self.new[f.sig] = {"size": size, "case": case, "msg": f.msg, "detail": f.detail,
                                   "origin": origin, "count": (cur or {}).get("count", 0) + 1}
            else:
                cur["count"] += 1
        return fails


def hyp_settings(n, shrink=False):
    from hypothesis import HealthCheck, Phase, Verbosity, settings
    return settings(
        max_examples=max(1, n), database=None, deadline=None, derandomize=False,
        report_multiple_bugs=False,
        phases=[Phase.generate, Phase.shrink] if shrink else [Phase.generate],
        suppress_health_check=[HealthCheck.too_slow, HealthCheck.data_too_large,
                               HealthCheck.large_base_example],
        verbosity=Verbosity.quiet,
    )


def shard_seed(seed, shard):
    return seed * 1000 + shard


def run_shard(a):
    pid, tier, seed, shard, nshards, scratch = a
    os.environ["PGV_SCRATCH"] = scratch
    signal.signal(signal.SIGALRM, _alarm)
    out = {"shard": shard, "harness_error": None}
    try:
        from pgv.core import Ctx
        from pgv import world
        mod = load_prop(pid)
        ctx = Ctx()
        ctx.tier = tier
        rec = Recorder(mod, ctx, load_known(pid))
        rec.budget = getattr(mod, "TIME_BUDGET_S", {"quick": 150, "thorough": 2400})[tier]
        if hasattr(mod, "setup_worker"):
            mod.setup_worker(tier)
        # 1. regression corpus (shard 0)
        if shard == 0:
            for name, case in corpus_cases(pid):
                rec.run_case(case, origin="corpus:" + name)
                ctx.count("corpus_cases")
        # 2. finite enumerations
        if hasattr(mod, "enumerate_cases"):
            for i, case in enumerate(mod.enumerate_cases(tier, seed)):
                if i % nshards == shard:
                    rec.run_case(case, origin="enum")
        # 3. Hypothesis-generated cases
        if hasattr(mod, "strategy"):
            from hypothesis import given, seed as hseed
            n = int(math.ceil(mod.examples(tier) / nshards))
            strat = mod.strategy(tier)

            @hseed(shard_seed(seed, shard))
            @hyp_settings(n)
            @given(strat)
            def t(case):
                rec.run_case(case)
            t()
        # 4. anything else (stateful machines, live servers)
        if hasattr(mod, "custom_run"):
            mod.custom_run(tier, seed, shard, nshards, ctx, rec)
        out["ctx"] = ctx.export()
        out["new"] = rec.new
        out["known"] = dict(rec.known_counts)
        world.cleanup_scratch()
    except BaseException:
        out["harness_error"] = traceback.format_exc()
    return out


def shrink_job(a):
    pid, tier, seed, shard, nshards, scratch, sig, budget_s = a
    os.environ["PGV_SCRATCH"] = scratch
    signal.signal(signal.SIGALRM, _alarm)
    best = {"case": None, "size": None, "msg": None, "detail": None}
    try:
        from hypothesis import given, seed as hseed
        from pgv.core import Ctx, jdump
        from pgv import world
        mod = load_prop(pid)
        ctx = Ctx()
        ctx.tier = tier
        rec = Recorder(mod, ctx, {})
        if hasattr(mod, "setup_worker"):
            mod.setup_worker(tier)
        n = int(math.ceil(mod.examples(tier) / nshards))
        deadline = time.time() + budget_s

        @hseed(shard_seed(seed, shard))
        @hyp_settings(n, shrink=True)
        @given(mod.strategy(tier))
        def t(case):
            if time.time() > deadline:
                return
            fails = rec.run_case(case)
            for f in fails:
                if f.sig == sig:
                    size = len(jdump(case))
                    if best["size"] is None or size <= best["size"]:
                        best.update(case=case, size=size, msg=f.msg, detail=f.detail)
                    raise AssertionError(sig)
        try:
            t()
        except BaseException:
            pass
        world.cleanup_scratch()
    except BaseException:
        best["error"] = traceback.format_exc()
    return best


def write_replay(pid, sig, info):
    import hashlib
    from pgv.core import jdump
    d = os.path.join(VERIF, "replays", pid)
    os.makedirs(d, exist_ok=True)
    h = hashlib.blake2b(jdump(info["case"]).encode(), digest_size=5).hexdigest()
    safe = "".join(c if c.isalnum() or c in "-_." else "_" for c in sig)[:80]
    path = os.path.join(d, "%s-%s.json" % (safe, h))
    with open(path, "w") as f:
        f.write(jdump({"property": pid, "signature": sig, "case": info["case"],
                       "message": info["msg"], "detail": info["detail"]}))
        f.write("\n")
    return path


def write_evidence(pid, mod, tier, seed, merged, wall, violations, known_obs):
    cov = {
        "evaluations": merged["evaluations"],
        "distinct_nontrivial": len(merged["nontrivial"]),
        "rule": getattr(mod, "RULE", ""),
        "samples": merged["samples"][:5] or [{"note": "no sample recorded"}],
        "class_histogram": dict(sorted(merged["hist"].items())),
        "exhaustive": bool(getattr(mod, "EXHAUSTIVE", False)),
    }
    for k, v in merged["extra"].items():
        cov[k] = v
    if known_obs:
        cov["known_findings_observed"] = known_obs
    ev = {
        "property_id": pid,
        "tier": tier,
        "seed": seed,
        "level": mod.LEVEL,
        "coverage": cov,
        "assumptions": list(getattr(mod, "ASSUMPTIONS", [])),
        "wall_s": round(wall, 2),
        "violations": violations,
    }
    d = os.path.join(VERIF, "evidence")
    os.makedirs(d, exist_ok=True)
    tmp = os.path.join(d, ".%s.json.tmp" % pid)
    with open(tmp, "w") as f:
        json.dump(ev, f, indent=1, sort_keys=True, default=repr)
        f.write("\n")
    os.replace(tmp, os.path.join(d, "%s.json" % pid))


def do_replay(pid, path):
    signal.signal(signal.SIGALRM, _alarm)
    from pgv.core import Ctx
    from pgv import world
    mod = load_prop(pid)
    with open(path) as f:
        data = json.load(f)
    ctx = Ctx()
    rec = Recorder(mod, ctx, {})
    if hasattr(mod, "setup_worker"):
        mod.setup_worker("quick")
    fails = rec.run_case(data["case"], origin="replay")
    world.cleanup_scratch()
    for f in fails:
        print("  %s: %s" % (f.sig, f.msg))
    if fails:
        print("VIOLATION property=%s replay=%s" % (pid, path))
        return 1
    print("replay: property %s holds on %s" % (pid, path))
    return 0


def main(argv=None):
    ap = argparse.ArgumentParser()
    ap.add_argument("prop")
    ap.add_argument("--tier", default=os.environ.get("VERIF_TIER", "quick"),
                    choices=["quick", "thorough"])
    ap.add_argument("--seed", type=int, default=None)
    ap.add_argument("--workers", type=int, default=None)
    ap.add_argument("--replay", default=None)
    ap.add_argument("--no-shrink", action="store_true")
    args = ap.parse_args(argv)
    pid = args.prop.upper()
    seed = args.seed
    if seed is None:
        try:
            seed = int(os.environ.get("VERIF_SEED", "1"))
        except ValueError:
            seed = 1
    seed = abs(seed) % (2 ** 31)

    run_scratch = None
    try:
        base = "/dev/shm" if os.path.isdir("/dev/shm") and os.access("/dev/shm", os.W_OK) else None
        run_scratch = tempfile.mkdtemp(prefix="pgv-run-%d-" % os.getpid(), dir=base)
        os.environ["PGV_SCRATCH"] = run_scratch
        if args.replay:
            return do_replay(pid, args.replay)
        t0 = time.time()
        mod = load_prop(pid)
        nshards = args.workers or getattr(mod, "WORKERS", None) or min(16, os.cpu_count() or 1)
        nshards = max(1, min(nshards, getattr(mod, "MAX_WORKERS", 16)))
        jobs = [(pid, args.tier, seed, s, nshards, run_scratch) for s in range(nshards)]
        ctxm = mp.get_context("fork")
        if nshards == 1:
            results = [run_shard(jobs[0])]
        else:
            with ctxm.Pool(nshards) as pool:
                results = pool.map(run_shard, jobs, chunksize=1)
        errs = [r["harness_error"] for r in results if r["harness_error"]]
        if errs:
            sys.stderr.write("HARNESS ERROR in %s:\n%s\n" % (pid, errs[0]))
            return 2
        merged = {"evaluations": 0, "hist": Counter(), "nontrivial": set(), "samples": [],
                  "extra": Counter()}
        new = {}
        known_obs = Counter()
        for r in results:
            c = r["ctx"]
            merged["evaluations"] += c["evaluations"]
            merged["hist"].update(c["hist"])
            merged["nontrivial"].update(c["nontrivial"])
            merged["extra"].update(c["extra"])
            for s in c["samples"]:
                if len(merged["samples"]) < 5:
                    merged["samples"].append(s)
            known_obs.update(r["known"])
            for sig, info in r["new"].items():
                info = dict(info, shard=r["shard"])
                if sig not in new or info["size"] < new[sig]["size"]:
                    cnt = new.get(sig, {}).get("count", 0)
                    new[sig] = info
                    new[sig]["count"] = info["count"] + cnt
                else:
                    new[sig]["count"] += info["count"]
        # shrink new signatures (bounded), then report
        sigs = sorted(new)[:MAX_NEW_SIGS]
        if sigs and not args.no_shrink and hasattr(mod, "strategy"):
            budget = 45 if args.tier == "quick" else 240
            sj = [(pid, args.tier, seed, new[s]["shard"], nshards, run_scratch, s, budget)
                  for s in sigs if new[s]["origin"] == "gen"]
            if sj:
                with ctxm.Pool(min(len(sj), 16)) as pool:
                    shr = pool.map(shrink_job, sj, chunksize=1)
                for job, best in zip(sj, shr):
                    s = job[6]
                    if best.get("case") is not None and best["size"] <= new[s]["size"]:
                        new[s].update(case=best["case"], size=best["size"], msg=best["msg"],
                                      detail=best["detail"])
        known = load_known(pid)
        by_what = {}
        for sig, what in sorted(known.items()):
            by_what.setdefault(what, []).append(sig)
        for what, sigs_ in sorted(by_what.items()):
            print("KNOWN-FINDING: property=%s %s [signatures=%s; observed %d times in this run]"
                  % (pid, what, ",".join(sigs_), sum(known_obs.get(x, 0) for x in sigs_)))
        wall = time.time() - t0
        write_evidence(pid, mod, args.tier, seed, merged, wall, len(new), dict(known_obs))
        nt = len(merged["nontrivial"])
        print("%s %s seed=%d: %d cases, %d distinct non-trivial, %d new failure signature(s), %.1fs"
              % (pid, args.tier, seed, merged["evaluations"], nt, len(new), wall))
        if new:
            for sig in sorted(new):
                info = new[sig]
                path = write_replay(pid, sig, info)
                print("  signature %s (%d cases): %s" % (sig, info["count"], info["msg"]))
                print("VIOLATION property=%s replay=%s" % (pid, path))
            return 1
        return 0
    except SystemExit:
        raise
    except BaseException:
        sys.stderr.write("HARNESS ERROR:\n%s\n" % traceback.format_exc())
        return 2
    finally:
        if run_scratch:
            shutil.rmtree(run_scratch, ignore_errors=True)


if __name__ == "__main__":
    sys.exit(main())
