"""World builder: tree specs (plain JSON-able data) -> files on disk.

A tree spec is a list of entries [path, kind, payload, (mode)]:
  path    : str of code points < 256 (= raw bytes, latin-1), '/'-separated, relative to the root
  kind    : 'f' file (payload = content, latin-1 str)   | 'd' directory (payload ignored)
            'l' symlink (payload = target, latin-1 str) | 'fifo' | 'sock'
            'zip' (payload = {'members': [[name, kind, payload, flags]...]}) see zip_bytes()
  mode    : optional int (default 0o644 files / 0o755 dirs)
Parents are created implicitly.  Every created path gets the fixed mtime MTIME.
"""
from __future__ import annotations

import io
import os
import shutil
import socket
import stat
import tempfile
import zipfile

MTIME = 1_000_000_000  # 2001-09-09, fixed so twin worlds render identical dates

_SCRATCH_BASE = None


def scratch_base():
    global _SCRATCH_BASE
    if _SCRATCH_BASE is None:
        base = os.environ.get("PGV_SCRATCH")
        if not base:
            base = "/dev/shm" if os.path.isdir("/dev/shm") and os.access("/dev/shm", os.W_OK) else None
        _SCRATCH_BASE = tempfile.mkdtemp(prefix="pgv-%d-" % os.getpid(), dir=base)
    return _SCRATCH_BASE


def cleanup_scratch():
    global _SCRATCH_BASE
    if _SCRATCH_BASE and os.path.isdir(_SCRATCH_BASE):
        shutil.rmtree(_SCRATCH_BASE, ignore_errors=True)
    _SCRATCH_BASE = None


_counter = [0]


def fresh_dir(prefix="w"):
    _counter[0] += 1
    d = os.path.join(scratch_base(), "%s%d" % (prefix, _counter[0]))
    os.mkdir(d)
    return d


def rmtree(d):
    shutil.rmtree(d, ignore_errors=True)


def b(s):
    """latin-1 str -> raw bytes"""
    return s.encode("latin-1") if isinstance(s, str) else s


def u(bs):
    """raw bytes -> latin-1 str (JSON-able)"""
    return bs.decode("latin-1") if isinstance(bs, (bytes, bytearray)) else bs


def sel(bs):
    """raw bytes -> the str pygopherd uses internally (utf-8 + surrogateescape)"""
    return b(bs).decode("utf-8", "surrogateescape")


def unsel(s):
    return s.encode("utf-8", "surrogateescape")


def zip_bytes(members):
    """members: list of [name(latin-1 str of raw bytes), kind, payload, flags]
       kind 'f' (payload content), 'd' (explicit dir member), 'l' (symlink; payload = target)
       flags: {'utf8': bool} -> name stored with the UTF-8 flag (must be valid UTF-8) else as CP437 bytes.
       All members get date_time 2001-09-09 01:46:40."""
    bio = io.BytesIO()
    with zipfile.ZipFile(bio, "w", zipfile.ZIP_DEFLATED) as z:
        for m in members:
            name, kind, payload = m[0], m[1], m[2]
            flags = m[3] if len(m) > 3 else {}
            raw = b(name)
            if flags.get("utf8"):
                fname = raw.decode("utf-8")
                if fname.isascii():
                    # python only sets the flag for non-ascii names; ascii is identical either way
                    pass
            else:
                fname = raw.decode("cp437")
            zcls = zipfile.ZipInfo if (flags.get("utf8") or fname.isascii()) else _CP437Info
            # flags['date']: another DOS time stamp (the format does not forbid month 0 or second 62)
            zi = zcls(fname, date_time=tuple(flags.get("date") or (2001, 9, 9, 1, 46, 40)))
            zi.compress_type = zipfile.ZIP_DEFLATED
            if kind == "d":
                if not zi.filename.endswith("/"):
                    zi.filename += "/"
                zi.external_attr = (0o40755 << 16) | 0x10
                data = b""
            elif kind == "l":
                zi.external_attr = (stat.S_IFLNK | 0o777) << 16
                data = b(payload)
            else:
                zi.external_attr = (stat.S_IFREG | (flags.get("mode", 0o644))) << 16
                # flags['attr']: what other archivers record for a file - permission bits without the file-type bits
                # (ZipFile.writestr), nothing at all, or MS-DOS attributes
                if flags.get("attr") == "noftype":
                    zi.external_attr = 0o600 << 16
                elif flags.get("attr") == "zero":
                    zi.external_attr = 0
                elif flags.get("attr") == "dos":
                    zi.create_system = 0
                    zi.external_attr = 0x20
                data = b(payload)
            z.writestr(zi, data)
    return bio.getvalue()


class _CP437Info(zipfile.ZipInfo):
    """Stores a non-ASCII name as raw CP437 bytes without the UTF-8 flag (what zip(1) does on POSIX)."""
    __slots__ = ()

    def _encodeFilenameFlags(self):
        return self.filename.encode("cp437"), self.flag_bits & ~0x800


def materialise(spec, root):
    """Write the tree spec under root (bytes path or str).  Returns list of created raw paths."""
    rootb = os.fsencode(root)
    created = []
    dirs = set()

    def ensure_parent(pb):
        parent = os.path.dirname(pb)
        if parent and parent != rootb and parent not in dirs:
            os.makedirs(parent, exist_ok=True)
            p = parent
            while p != rootb and p not in dirs:
                dirs.add(p)
                p = os.path.dirname(p)

    for ent in spec:
        path, kind, payload = ent[0], ent[1], ent[2]
        mode = ent[3] if len(ent) > 3 and ent[3] is not None else None
        pb = os.path.join(rootb, b(path))
        ensure_parent(pb)
        if kind == "d":
            os.makedirs(pb, exist_ok=True)
            dirs.add(pb)
            if mode is not None:
                os.chmod(pb, mode)
        elif kind == "f":
            with open(pb, "wb") as f:
                f.write(b(payload))
            if mode is not None:
                os.chmod(pb, mode)
            created.append(pb)
        elif kind == "l":
            os.symlink(b(payload), pb)
            created.append(pb)
        elif kind == "fifo":
            os.mkfifo(pb)
            created.append(pb)
        elif kind == "sock":
            s = socket.socket(socket.AF_UNIX)
            try:
                s.bind(pb)
            finally:
                s.close()
            created.append(pb)
        elif kind == "zip":
            with open(pb, "wb") as f:
                f.write(zip_bytes(payload["members"]))
            created.append(pb)
        else:
            raise ValueError("unknown node kind %r" % (kind,))
    for pb in created:
        try:
            os.utime(pb, (MTIME, MTIME), follow_symlinks=False)
        except (OSError, NotImplementedError):
            pass
    for pb in sorted(dirs, key=len, reverse=True):
        os.utime(pb, (MTIME, MTIME))
    os.utime(rootb, (MTIME, MTIME))
    return created


def fix_mtimes(root):
    rootb = os.fsencode(root)
    for dp, dn, fn in os.walk(rootb, topdown=False):
        for n in fn:
            try:
                os.utime(os.path.join(dp, n), (MTIME, MTIME), follow_symlinks=False)
            except OSError:
                pass
        os.utime(dp, (MTIME, MTIME))


def build(spec, prefix="w"):
    d = fresh_dir(prefix)
    root = os.path.join(d, "root")
    os.mkdir(root)
    materialise(spec, root)
    return d, root


def remove_caches(root):
    """Delete every directory-cache / zip-index file the server left behind."""
    rootb = os.fsencode(root)
    for dp, dn, fn in os.walk(rootb):
        for n in fn:
            if n.startswith(b".cache.pygopherd"):
                try:
                    os.unlink(os.path.join(dp, n))
                except OSError:
                    pass
