"""Audit monitor: records file-system and process events raised while armed.

CPython audit hooks cannot be removed, so one hook is installed per process and gated by `armed`.
Paths are resolved against the cwd at event time.  `os.stat` raises no audit event: stat-only influence
is left to the non-interference oracle.
"""
from __future__ import annotations

import os
import sys

_EVENTS = {
    "open": 0, "os.listdir": 0, "os.scandir": 0, "os.chdir": 0, "os.mkdir": 0, "os.remove": 0,
    "os.rename": 0, "os.rmdir": 0, "os.symlink": 0, "os.link": 0, "os.truncate": 0, "os.utime": 0,
    "os.chmod": 0, "os.chown": 0, "shutil.copyfile": 0, "shutil.move": 0, "shutil.rmtree": 0,
    "glob.glob": 0, "os.walk": 0,
}
_PROC_EVENTS = ("subprocess.Popen", "os.exec", "os.posix_spawn", "os.system", "os.spawn", "os.fork")

armed = False
events = []
_installed = False


def _hook(event, args):
    if not armed:
        return
    if event in _EVENTS:
        p = args[0] if args else None
        if isinstance(p, int) or p is None:
            return
        try:
            pb = os.fsencode(p)
        except TypeError:
            return
        if not pb.startswith(b"/"):
            try:
                pb = os.path.join(os.fsencode(os.getcwd()), pb)
            except OSError:
                pass
        extra = None
        if event in ("os.rename", "os.symlink", "os.link", "shutil.copyfile", "shutil.move") and len(args) > 1:
            extra = args[1]
        events.append((event, os.path.normpath(pb), extra))
    elif event in _PROC_EVENTS:
        if event == "os.fork":
            return
        exe = args[0] if args else None
        argv = args[1] if len(args) > 1 else None
        events.append((event, exe, argv))
    elif event == "import":
        # module loads from files: args = (module, filename, sys.path, sys.meta_path, sys.path_hooks)
        fn = args[1] if len(args) > 1 else None
        if fn:
            events.append(("import", os.path.normpath(os.fsencode(fn)), None))


def install():
    global _installed
    if not _installed:
        sys.addaudithook(_hook)
        _installed = True


class armed_for:
    def __enter__(self):
        global armed
        install()
        del events[:]
        armed = True
        return events

    def __exit__(self, *a):
        global armed
        armed = False


_ALLOW_PREFIXES = None


def allow_prefixes():
    global _ALLOW_PREFIXES
    if _ALLOW_PREFIXES is None:
        ps = {sys.prefix, sys.base_prefix, sys.exec_prefix, "/usr/lib", "/usr/local/lib", "/usr/share",
              os.environ.get("PGV_REPO", "/repo"),
              os.path.dirname(os.path.dirname(os.path.abspath(__file__)))}
        out = set()
        for p in ps:
            out.add(os.fsencode(os.path.normpath(p)))
            out.add(os.fsencode(os.path.realpath(p)))
        _ALLOW_PREFIXES = tuple(sorted(out))
    return _ALLOW_PREFIXES


def under(path, prefix):
    prefix = prefix.rstrip(b"/")
    return path == prefix or path.startswith(prefix + b"/")


def outside_events(evs, root, allowed_exes=()):
    """Events touching anything outside realpath(root) that is not interpreter-internal."""
    rootb = os.fsencode(os.path.realpath(root))
    rootn = os.fsencode(os.path.normpath(root))
    bad = []
    for ev, p, extra in evs:
        if ev in _PROC_EVENTS:
            exe = p
            try:
                exeb = os.fsencode(exe) if exe is not None else b""
            except TypeError:
                exeb = b""
            if os.path.basename(exeb).decode("latin-1") in allowed_exes and b"/" not in exeb:
                continue
            if exeb.startswith(b"/") and (under(os.path.normpath(exeb), rootb) or under(os.path.normpath(exeb), rootn)):
                continue
            bad.append((ev, exeb, repr(extra)[:80]))
            continue
        if under(p, rootb) or under(p, rootn):
            continue
        if any(under(p, a) for a in allow_prefixes()):
            continue
        bad.append((ev, p, None))
    return bad
