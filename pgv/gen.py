"""Shared Hypothesis strategies.  All byte strings are produced as latin-1 `str` (JSON-able)."""
from __future__ import annotations

import re

from hypothesis import strategies as st

SHIPPED_IGNORE = (r"/.cap$|/lost\+found$|/lib$|/bin$|/etc$|/dev$|~$|/\.cache|/\.forward$|/\.message$|"
                  r"/\.hushlogin$|/\.kermrc$|/\.notar$|/\.where$|/veronica.ctl$|/robots.txt$|"
                  r"/nohup.out$|/gophermap$|\.abstract$|\.keyboards$|\.ask|\.3d$|~$")
_IGN = re.compile(SHIPPED_IGNORE)

TAME_EXT = ["", "", ".txt", ".html", ".gif", ".jpg", ".c", ".pdf", ".dat", ".xyz", ".tar", ".mp3"]

tame_base = st.text("abcdefghijklmnopqrstuvwxyz0123456789", min_size=1, max_size=6)
tame_name = st.builds(lambda b, e: b + e, tame_base, st.sampled_from(TAME_EXT))

# bytes allowed inside a file-name segment, by class
_GOPHER_OK = [c for c in range(1, 256) if c not in (0x2F, 0x09, 0x0A, 0x0D)]
_ANY_OK = [c for c in range(1, 256) if c != 0x2F]
_RESERVED = [ord(c) for c in "?#%&+;:=@$,'\"<>![](){}*^`|\\ "]
_HIGH = list(range(0x80, 0x100))


def _chars(codes):
    return st.sampled_from([chr(c) for c in codes])


def hostile_name(gopher_ok=True, min_size=1, max_size=8):
    pool = _GOPHER_OK if gopher_ok else _ANY_OK
    ch = st.one_of(
        st.sampled_from(list("abcxyz019")),
        _chars(_RESERVED),
        _chars(_HIGH),
        # valid UTF-8: precomposed, and sequences that Unicode normalisation would rewrite (decomposed accent, OHM SIGN,
        # ANGSTROM SIGN, a CJK compatibility ideograph, a ligature, a full-width letter)
        st.sampled_from(list("éü€") + ["e\u0301", "\u2126", "\u212b", "\uf900", "\ufb01", "\uff21", "\u1e9b\u0323"]).map(
            lambda c: c.encode("utf-8").decode("latin-1")),
        _chars(pool),
        # characters that some line-splitting and blank-stripping routines treat as line ends / blanks
        st.sampled_from(["\x0b", "\x0c", "\x1c", "\x1d", "\x1e", "\x1f", "\xc2\x85", "\xe2\x80\xa8", "\xe2\x80\xa9", "\xc2\xa0"]),
        # TAB, CR, LF: names only the URL-based protocols can express
        *([] if gopher_ok else [st.sampled_from(["\t", "\n", "\r", "\r\n"])]),
    )
    return st.lists(ch, min_size=min_size, max_size=max_size).map("".join)


def servable_name(name, toplevel=True, full=False):
    """Names a listing must contain and serve: not ignored, not dot-files, pass the selector filter,
    no blanks at the ends (Gopher strips them), outside the reserved top-level namespaces."""
    if not name or name in (".", ".."):
        return False
    if name[0] == "." or name[0] in " \t\r\n\x0b\x0c" or name[-1] in " \t\r\n\x0b\x0c":
        return False
    if name != name.strip():
        return False
    if name.endswith("."):
        return False  # 'dir.' + '/child' contains './': the selector filter makes the children unservable (C12's carve-out)
    # str.strip() of the decoded selector strips unicode whitespace too: exclude NEL/NBSP etc. at ends
    dec = name.encode("latin-1").decode("utf-8", "surrogateescape")
    if dec != dec.strip():
        return False
    for bad in ("..", "./", "//", ".\\", "\\\\", "\0"):
        if bad in name:
            return False
    if _IGN.search("/" + name):
        return False
    if name.startswith("URL:"):
        return False
    if re.search(r" [0-9]+$", name):
        return False  # '/x y 12' has the shape 'host path content-length': the Spartan protocol claims the line by design
    if full and ("|" in name or "?" in name):
        return False
    if toplevel:
        if name.lower().startswith("wap") or \
                name.startswith("PYGOPHERD-HTTPPROTO-ICONS") or name.startswith("GEMINI-QUERY"):
            return False
        if full and len(name) == 1:
            return False
    return True


long_name = st.builds(lambda c, n, e: c * n + e, st.sampled_from(["a", "b9", "\xe9", "x y", "\xc3\xa9"]),
                      st.integers(40, 110), st.sampled_from(TAME_EXT)).filter(lambda n: len(n) <= 230)


# names that CONTAIN what some code looks for at the start of a selector or in a request line
quirky_name = st.sampled_from(["cURL: tips.txt", "xURL:http:y", "my URL:s", "aURL:", "GET x HTTP", "a gemini:", "x.zip.txt", "not.mbox.txt",
                               "file.gophermapx", "x.tal.txt", "README.html.bak", "a|b", "a?b", "50% off", "a+b c", "wapx", "x.pyg.txt",
                               # literal percent escapes in a NAME (decoded once too often they name something else)
                               "a%41.txt", "a%20b", "100%25", "%2e%2e", "x%2fy", "%E9t%C3%A9",
                               # what a %-format, str.format or a regular-expression template would expand
                               "100% juice", "rate%d", "%s.txt", "%(name)s", "{0}.txt", "{name}", "a\\1b"])


def names(gopher_ok=True, hostile_ratio=0.4, toplevel=True, full=False, long_ratio=0):
    s = st.one_of(tame_name, tame_name, hostile_name(gopher_ok), tame_name, tame_name, hostile_name(gopher_ok), quirky_name) if hostile_ratio else tame_name
    if long_ratio:
        s = st.one_of(s, s, long_name)
    return s.filter(lambda n: servable_name(n, toplevel, full))


text_line = st.text("abcdefghij klmnop XYZ0123.,;:-_()", max_size=30)
text_content = st.lists(text_line, max_size=5).map(lambda ls: "".join(l + "\n" for l in ls))

binary_content = st.binary(max_size=64).map(lambda b: b.decode("latin-1"))


def is_tame(name):
    return re.fullmatch(r"[A-Za-z0-9._-]+", name) is not None
