#!/bin/sh
# Offline, idempotent. Installs hypothesis into /venv if it is missing and atheris into /verif/.deps.
set -e
cd "$(dirname "$0")"
WH=/opt/veriftools/wheels
/venv/bin/python -c "import hypothesis" 2>/dev/null || \
  /venv/bin/pip install --quiet --no-index --find-links "$WH" hypothesis
if [ ! -d .deps/atheris ]; then
  /venv/bin/pip install --quiet --no-index --find-links "$WH" --target .deps atheris 2>/dev/null || \
    echo "setup: atheris not installable (optional; only the atheris campaigns of the thorough tier are skipped)"
fi
mkdir -p evidence replays
/venv/bin/python -c "import hypothesis; print('setup ok: hypothesis', hypothesis.__version__)"
